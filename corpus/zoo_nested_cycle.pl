% an inner non-ground cycle discovered while an outer cycle is active
0.4::f(1). 0.5::f(2). 0.6::g(1,2). 0.3::g(2,1). 0.7::g(2,2).
a(X) :- g(X,Y), b(Y).
a(X) :- f(X).
b(X) :- a(X).
b(X) :- c(X).
c(X) :- g(X,Y), b(Y).
c(X) :- f(X).
query(a(1)). query(b(2)). query(c(1)). query(a(X)).
