% explicit disjunction inside a clause on a cycle; the same bindings are proved twice
0.5::a. 0.3::b. 0.4::c.
s :- (a ; t), b.
s :- c.
t :- (s ; c).
t :- a, c.
query(s). query(t).
