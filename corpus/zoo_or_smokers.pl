% body disjunctions whose branches give the same binding, inside a recursive predicate
0.3::stress(1). 0.3::stress(2). 0.3::stress(3).
0.2::inf(1,2). 0.2::inf(2,1). 0.2::inf(2,3). 0.2::inf(3,1). 0.2::inf(1,3).
0.4::vapes(1). 0.4::vapes(2). 0.4::vapes(3).
smokes(X) :- stress(X).
smokes(X) :- inf(Y,X), (smokes(Y) ; vapes(Y)).
vapes2(X) :- (vapes(X) ; smokes(X)), stress(X).
query(smokes(1)). query(smokes(2)). query(smokes(3)). query(vapes2(1)).
