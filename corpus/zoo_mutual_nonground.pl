% non-ground mutual recursion with two cycles sharing q/1 (cycle-root swap when the inner cycle is found first)
0.3::e(1,2). 0.4::e(2,3). 0.5::e(3,1). 0.6::e(2,1).
p(X) :- e(X,Y), q(Y).
p(X) :- e(X,_), b(X).
q(X) :- e(X,Y), p(Y).
q(X) :- r(X).
r(X) :- e(X,Y), q(Y).
r(X) :- b(X).
0.2::b(1). 0.7::b(3).
query(p(1)). query(q(2)). query(r(3)). query(p(X)).
