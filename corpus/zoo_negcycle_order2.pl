% A goal that depends negatively on itself next to a positive self-loop (found by an independent sub-agent on the unchanged tree):
% default order answers p = 0.3, most other sibling orders raise NegativeCycle (an early-cached ground goal bypasses checkCycle).
0.3::a.
0.5::b.
p :- a.
p :- p, b.
p :- \+p.
query(p).
