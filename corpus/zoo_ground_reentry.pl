% a ground goal re-entered while active, with results already available, under an AD
0.3::h(1); 0.4::h(2).
0.5::k.
p(1) :- h(1).
p(1) :- k, p(1).
p(1) :- q, h(2).
q :- p(1), k.
q :- h(2).
query(p(1)). query(q).
