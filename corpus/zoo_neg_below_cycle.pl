% stratified negation below a positive cycle
0.4::e(1,2). 0.5::e(2,1). 0.6::e(2,3).
0.3::blocked(3). 0.2::blocked(1).
reach(X,Y) :- e(X,Y), \+blocked(Y).
reach(X,Y) :- reach(X,Z), e(Z,Y), \+blocked(Y).
safe(X) :- e(_,X), \+reach(X,X).
query(reach(1,3)). query(reach(1,1)). query(safe(2)). query(safe(3)).
