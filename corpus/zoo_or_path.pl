% disjunction in the recursive clause of a path predicate over a cyclic graph with a deterministic edge
0.6::e(1,2). 0.5::e(2,1). e(1,3). 0.4::e(2,3). 0.3::e(3,2).
0.5::alt(1,2). 0.5::alt(2,3).
path(X,Y) :- (e(X,Y) ; alt(X,Y)).
path(X,Y) :- (e(X,Z) ; alt(X,Z)), Z \= Y, path(Z,Y).
query(path(1,3)). query(path(2,3)). query(path(2,1)). query(path(3,1)).
