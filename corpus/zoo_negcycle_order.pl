% A real cycle through negation (p <- \+q, q <- r, r <- p) next to positive cycles.
% Default order: NegativeCycle. Some sibling orders answer (found by an independent sub-agent on the unchanged tree).
0.5::x.
0.4::y.
p :- \+q.
p :- x.
q :- r.
q :- y.
r :- q.
r :- p.
r :- x.
query(p).
