"""The arbitrary-order engines of docs/source/engine.rst, reproduced verbatim from the documentation
(no-argument constructor, as documented, so that engine.__class__() inside subquery works), with the
module-level name `random` bound to a simulator-owned, recording / scriptable PRNG facade."""
from problog.engine_stack import StackBasedEngine, MessageAnyOrder


class ChoiceSource(object):
    """randint facade: draws from a seeded PRNG, or replays a script; records every decision."""

    def __init__(self, rng=None, script=None):
        self.rng = rng
        self.script = list(script) if script is not None else None
        self.pos = 0
        self.log = []  # chosen index, number of options

    def randint(self, a, b):
        n = b - a + 1
        if self.script is not None:
            if self.pos < len(self.script):
                v = self.script[self.pos]
                if isinstance(v, list):
                    v = v[0]
                v = min(max(int(v), 0), n - 1)
            else:
                v = n - 1  # default: depth-first (last pushed), like MessageOrderDrc
            self.pos += 1
        else:
            v = self.rng.randrange(n)
        self.log.append([v, n])
        return a + v


random = ChoiceSource(script=[])


def set_choice_source(src):
    global random
    random = src


class RandomOrderEngine(StackBasedEngine):
    def __init__(self):
        StackBasedEngine.__init__(self, unbuffered=True)

    def init_message_stack(self):
        return RandomOrderQueue(self)


class RandomOrderQueue(MessageAnyOrder):
    def __init__(self, engine):
        MessageAnyOrder.__init__(self, engine)
        # Keep two queues: one for 'result' and 'complete' messages, one for 'eval' messages.
        self.messages_rc = []
        self.messages_e = []

    def append(self, message):
        if message[0] == "e":
            self.messages_e.append(message)
        else:
            self.messages_rc.append(message)

    def pop(self):
        if self.messages_rc:
            # Process 'result' and 'complete' messages first (keep them in order)
            msg = self.messages_rc.pop(-1)
            return msg
        else:
            # Pick a random 'eval' message.
            i = random.randint(0, len(self.messages_e) - 1)
            res = self.messages_e.pop(i)
            return res

    def __nonzero__(self):
        return bool(self.messages_e) or bool(self.messages_rc)

    def __bool__(self):
        return bool(self.messages_e) or bool(self.messages_rc)

    def __len__(self):
        return len(self.messages_e) + len(self.messages_rc)

    def __iter__(self):
        return iter(self.messages_e + self.messages_rc)


def engine_factory(mode):
    """mode: "default" | "D" | "Drc" | "R"."""
    if mode == "default":
        return lambda: StackBasedEngine()
    if mode == "D":
        return lambda: StackBasedEngine(unbuffered=True)
    if mode == "Drc":
        return lambda: StackBasedEngine(unbuffered=True, rc_first=True)
    if mode == "R":
        return lambda: RandomOrderEngine()
    raise ValueError(mode)
