"""Delta debugging over lists (ops, clauses, decisions). `fails(candidate) -> bool` must be deterministic."""


def ddmin(items, fails, max_tests=400):
    """Greedy ddmin: remove chunks while `fails` keeps returning True. Returns a 1-minimal-ish list."""
    items = list(items)
    tests = [0]

    def test(c):
        tests[0] += 1
        return fails(c)

    n = 2
    while len(items) >= 2 and tests[0] < max_tests:
        chunk = max(1, len(items) // n)
        reduced = False
        i = 0
        while i < len(items) and tests[0] < max_tests:
            cand = items[:i] + items[i + chunk:]
            if cand != items and test(cand):
                items = cand
                n = max(n - 1, 2)
                reduced = True
            else:
                i += chunk
        if not reduced:
            if chunk == 1:
                break
            n = min(len(items), n * 2)
    # final single-element pass
    i = 0
    while i < len(items) and len(items) > 1 and tests[0] < max_tests:
        cand = items[:i] + items[i + 1:]
        if test(cand):
            items = cand
        else:
            i += 1
    return items


def shrink_each(items, candidates_for, fails, max_tests=200):
    """Try to replace each element by simpler candidates (candidates_for(elem) -> iterable)."""
    items = list(items)
    tests = 0
    for i in range(len(items)):
        for c in candidates_for(items[i]):
            if tests >= max_tests:
                return items
            cand = items[:i] + [c] + items[i + 1:]
            tests += 1
            if fails(cand):
                items = cand
                break
    return items
