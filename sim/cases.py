"""Case generation shared by the engine checks: program AST + text + tags (+ reference on demand)."""
from sim import gen, ref
from sim.seeds import stream


def make_case(seed, *labels, need_solution=False, max_worlds=4096, evidence_free=False, feat_override=None,
              consistent_evidence=True):
    """Deterministically derive a generated program from (seed, labels). Retries (bounded) when the
    reference cannot handle the size. Returns dict or None."""
    for attempt in range(6):
        rng = stream(seed, "case", *labels, attempt)
        feat = gen.default_features(rng)
        if evidence_free:
            feat["evidence"] = False
        if feat_override:
            feat.update(feat_override)
        prog = gen.gen_program(rng, feat)
        try:
            R = ref.Ref(prog, max_worlds=max_worlds)
            if R.nworlds() > max_worlds:
                continue
            sol = None
            if prog["evidence"] and consistent_evidence:
                # keep most evidence consistent: flip values until P(e) > 0 (at most once per atom)
                sol = R.solve()
                if sol["inconsistent"] and rng.random() < 0.9:
                    for e in prog["evidence"]:
                        e[1] = not e[1]
                    R = ref.Ref(prog, max_worlds=max_worlds)
                    sol = R.solve()
                    if sol["inconsistent"]:
                        prog["evidence"] = []
                        R = ref.Ref(prog, max_worlds=max_worlds)
                        sol = None
            if need_solution and sol is None:
                sol = R.solve()
            tags = R.tags()
        except ref.TooBig:
            continue
        return {"prog": prog, "text": gen.program_text(prog), "tags": tags, "ref": R, "sol": sol,
                "digest": gen.program_digest(prog), "attempt": attempt}
    return None
