"""Shared logic of the engine differential checks (C03, C04): one program, a baseline run and
alternative runs (other schedules / other engines), comparison, signatures, minimisation."""
import json
import os
import time

from sim import gen
from sim import pipeline as PL
from sim.minimize import ddmin
from sim.seeds import stream, digest

VERIF = os.path.dirname(os.path.dirname(os.path.abspath(__file__)))


def make_sched(spec):
    if spec is None:
        return None
    n = spec["name"]
    if n == "identity":
        return PL.Identity()
    if n == "reverse":
        return PL.Reverse()
    if n == "rotate":
        return PL.Rotate()
    if n == "uniform":
        return PL.Uniform(stream(spec["seed"], "sched"), spec.get("p", 1.0))
    if n == "static":
        return PL.Static(stream(spec["seed"], "sched"))
    if n == "one-shot":
        return PL.OneShot(stream(spec["seed"], "sched"), spec["at"])
    if n == "scripted":
        return PL.Scripted(spec["decisions"])
    raise ValueError(n)


def short_site(o):
    s = o.get("site") or []
    if not s:
        return ""
    return s[0].split(" | ")[0].split(":", 1)[1]


def diff_signature(base, alt):
    """None if the outcomes agree; otherwise (signature, why, faulty_side_outcome, other_outcome)."""
    if base["kind"] == "budget" and alt["kind"] == "budget":
        return None
    if "CycleBreakBudget" in (base.get("cls"), alt.get("cls")):
        return None  # performance of cycle breaking is in no property: inconclusive
    ok, why = PL.same_outcome(base, alt)
    if ok:
        return None
    if base["kind"] == "ok" and alt["kind"] == "ok":
        kind = "prob" if why.startswith("probability") else "instances"
        return (kind, why, alt, base)
    # an error / crash / budget on one side (or different classes)
    if alt["kind"] != "ok" and base["kind"] != "ok" and alt.get("cls") == "InconsistentEvidenceError":
        faulty, other = base, alt  # both fail: the grounding-time error is the deviation, not the evaluation-time one
    elif alt["kind"] != "ok":
        faulty, other = alt, base
    else:
        faulty, other = base, alt
    sig = "%s|%s@%s" % (PL.kind_tag(base), PL.kind_tag(alt), short_site(faulty))
    return (sig, why, faulty, other)


def match_dict(sigt, tags, side):
    sig, why, faulty, other = sigt
    return {"signature": sig, "faulty": PL.kind_tag(faulty), "other_side": PL.kind_tag(other),
            "site": faulty.get("site", []), "tags": list(tags), "faulty_is": side, "msg": (faulty.get("msg") or "")[:80]}


def load_open_tags(prop):
    path = os.path.join(VERIF, "known_findings.json")
    tags = set()
    try:
        with open(path) as f:
            doc = json.load(f)
    except OSError:
        return tags
    for e in doc.get("findings", []):
        if e.get("status") == "open" and prop in e.get("properties", [e.get("property")]):
            tags.update(e.get("signature", {}).get("requires_tags", []))
    return tags


# ------------------------------------------------------------------------------------------------
# minimisation of (program AST, alternative run) keeping the signature


def minimise_program(prog, run_pair, want_sig, max_s=45, max_tests=300, require_query=True):
    """run_pair(text) -> signature string or None. Reduces clauses, body literals, queries, evidence."""
    t0 = time.time()
    tests = [0]

    def fails_prog(p):
        if time.time() - t0 > max_s or tests[0] > max_tests:
            return False
        tests[0] += 1
        if require_query and not p["queries"] and not p["evidence"]:
            return False
        if not gen.is_valid(p):
            return False
        try:
            return run_pair(gen.program_text(p)) == want_sig
        except Exception:
            return False

    cur = json.loads(json.dumps(prog))

    def with_clauses(cl):
        p = dict(cur)
        p["clauses"] = cl
        return p

    cur["clauses"] = ddmin(cur["clauses"], lambda cl: fails_prog(with_clauses(cl)), max_tests=max_tests)
    # queries / evidence
    for key in ("queries", "evidence"):
        i = 0
        while i < len(cur[key]):
            p = dict(cur)
            p[key] = cur[key][:i] + cur[key][i + 1:]
            if fails_prog(p):
                cur = p
            else:
                i += 1
    # body literals
    for ci in range(len(cur["clauses"])):
        li = 0
        while li < len(cur["clauses"][ci]["body"]):
            p = json.loads(json.dumps(cur))
            del p["clauses"][ci]["body"][li]
            if fails_prog(p):
                cur = p
            else:
                li += 1
    # AD heads
    for ci in range(len(cur["clauses"])):
        hi = 0
        while len(cur["clauses"][ci]["heads"]) > 1 and hi < len(cur["clauses"][ci]["heads"]):
            p = json.loads(json.dumps(cur))
            del p["clauses"][ci]["heads"][hi]
            if fails_prog(p):
                cur = p
            else:
                hi += 1
    # one more clause pass
    cur["clauses"] = ddmin(cur["clauses"], lambda cl: fails_prog(with_clauses(cl)), max_tests=max_tests)
    return cur


def minimise_decisions(decisions, run_with, want_sig, max_tests=120):
    """run_with(decisions) -> signature or None."""
    def fails(d):
        try:
            return run_with(d) == want_sig
        except Exception:
            return False
    if not fails(decisions):
        return decisions
    d = ddmin(decisions, fails, max_tests=max_tests)
    # simplify each permutation to a single transposition where possible
    out = list(d)
    for i, (k, perm) in enumerate(d):
        n = len(perm)
        done = False
        for a in range(n):
            for b in range(a + 1, n):
                t = list(range(n))
                t[a], t[b] = t[b], t[a]
                cand = out[:i] + [[k, t]] + out[i + 1:]
                if t != perm and fails(cand):
                    out = cand
                    done = True
                    break
            if done:
                break
    return out


_FINDINGS = {}


def owner_of(prop, match):
    """Id of the open finding this case is attributed to, or None (same rule as the parent applies)."""
    from sim import runner
    if prop not in _FINDINGS:
        _FINDINGS[prop] = runner.load_findings(prop)
    for e in _FINDINGS[prop]:
        if runner.finding_matches(e, {"match": match}):
            return e["id"]
    return None
