"""Runs the real ProbLog pipeline under the simulator's control and reduces a run to a canonical outcome.

Seams owned here (all harness-side, no repo change besides the guarded MessageFIFO.__iadd__ hook):
  * scheduler object installed as problog.engine_stack._verif_sched  (S1)
  * pop counter / step budget / message-trace digest wrapped around every queue class' pop
  * outcome canonicalisation, error call-site extraction
"""
import linecache
import os
import re
import sys
import zlib

import problog  # noqa: F401
from problog import engine_stack as ES
from problog import get_evaluatable
from problog.engine import DefaultEngine
from problog.errors import ProbLogError
from problog.formula import LogicFormula
from problog.logic import Term, term2list
from problog.program import PrologString

REPO_PROBLOG = os.path.dirname(os.path.abspath(problog.__file__))


class StepBudget(BaseException):
    """Raised from the pop wrapper when the simulated clock (messages popped) exceeds the budget."""


class CycleBreakBudget(BaseException):
    """Raised when cycle breaking (worst-case exponential, outside the engine) or the engine's recursive
    find_cycle search over siblings (exponential on e.g. test/bigstack.pl under random order) exceeds its
    call budget. Performance is in no property: such runs are inconclusive, never a verdict."""


class Clock(object):
    def __init__(self):
        self.steps = 0
        self.budget = None
        self.crc = 0
        self.enabled = True
        self.cb_calls = 0
        self.cb_budget = None

    def reset(self, budget=None, cb_budget=300000):
        self.steps = 0
        self.budget = budget
        self.crc = 0
        self.cb_calls = 0
        self.cb_budget = cb_budget


class WallBudget(BaseException):
    """Backstop for loops the simulated clocks cannot see (e.g. the `while child is not None` walk of
    StackBasedEngine.find_cycle over a cyclic parent chain under an unbuffered engine): a real-time limit per run.
    Its verdict is never used: such a run is inconclusive and counted."""


class wall_guard(object):
    """Nestable real-time limit (SIGALRM / ITIMER_REAL) raising WallBudget in the main thread."""

    def __init__(self, seconds=30):
        self.seconds = seconds

    def _fire(self, signum, frame):
        raise WallBudget()

    def __enter__(self):
        import signal
        import time
        self._t0 = time.time()
        self._outer = signal.getitimer(signal.ITIMER_REAL)[0]
        self._old = signal.signal(signal.SIGALRM, self._fire)
        limit = self.seconds if not self._outer else min(self.seconds, self._outer)
        signal.setitimer(signal.ITIMER_REAL, limit, 5.0)  # fires again every 5 s should the exception be swallowed
        return self

    def __exit__(self, *exc):
        import signal
        import time
        signal.setitimer(signal.ITIMER_REAL, 0)
        signal.signal(signal.SIGALRM, self._old)
        if self._outer:
            remaining = self._outer - (time.time() - self._t0)
            signal.setitimer(signal.ITIMER_REAL, max(remaining, 0.01), 5.0)
        return False


CLOCK = Clock()
_wrapped = set()


def _wrap_pop(cls):
    if cls in _wrapped:
        return
    _wrapped.add(cls)
    orig = cls.pop

    def pop(self, *a):
        msg = orig(self, *a)
        c = CLOCK
        c.steps += 1
        act = msg[0]
        if act == "e":
            c.crc = zlib.crc32(b"e%d/%r" % (msg[1] if isinstance(msg[1], int) else -99999, msg[3].get("parent")), c.crc)
        else:
            c.crc = zlib.crc32(b"%s%r" % (act.encode(), msg[1]), c.crc)
        if c.budget is not None and c.steps > c.budget:
            raise StepBudget()
        return msg

    cls.pop = pop


for _c in (ES.MessageFIFO, ES.MessageOrderD, ES.MessageOrderDrc, ES.MessageOrder1):
    _wrap_pop(_c)


def _wrap_break_cycles():
    from problog import cycles

    orig = cycles._break_cycles

    def _break_cycles(*a, **k):
        CLOCK.cb_calls += 1
        if CLOCK.cb_budget is not None and CLOCK.cb_calls > CLOCK.cb_budget:
            raise CycleBreakBudget()
        return orig(*a, **k)

    cycles._break_cycles = _break_cycles


_wrap_break_cycles()


def _wrap_find_cycle():
    orig = ES.StackBasedEngine.find_cycle

    def find_cycle(self, *a, **k):
        CLOCK.cb_calls += 1
        if CLOCK.cb_budget is not None and CLOCK.cb_calls > CLOCK.cb_budget:
            raise CycleBreakBudget()
        return orig(self, *a, **k)

    ES.StackBasedEngine.find_cycle = find_cycle


_wrap_find_cycle()


# ------------------------------------------------------------------------------------------------
# schedulers (S1)


def eligible(batch):
    return len(batch) > 1 and all(m[0] == "e" for m in batch)


class Scheduler(object):
    """Base: records every decision as (eligible batch index, permutation as index list)."""

    name = "identity"

    def __init__(self):
        self.nbatches = 0
        self.decisions = []  # [batch_index, [perm...]] for non-identity decisions only
        self.sizes = []

    def choose(self, k, batch):
        return None

    def permute(self, batch):
        if not eligible(batch):
            return batch
        k = self.nbatches
        self.nbatches += 1
        n = len(batch)
        if len(self.sizes) < 4096:
            self.sizes.append(n)
        perm = self.choose(k, batch)
        if perm is None or perm == list(range(n)):
            return batch
        self.decisions.append([k, perm])
        return [batch[i] for i in perm]


class Identity(Scheduler):
    pass


class Uniform(Scheduler):
    def __init__(self, rng, p=1.0):
        Scheduler.__init__(self)
        self.rng = rng
        self.p = p
        self.name = "uniform(%s)" % p

    def choose(self, k, batch):
        if self.p < 1.0 and self.rng.random() >= self.p:
            return None
        perm = list(range(len(batch)))
        self.rng.shuffle(perm)
        return perm


class Reverse(Scheduler):
    name = "reverse"

    def choose(self, k, batch):
        return list(range(len(batch) - 1, -1, -1))


class Rotate(Scheduler):
    name = "rotate"

    def choose(self, k, batch):
        n = len(batch)
        return [(i + 1) % n for i in range(n)]


class OneShot(Scheduler):
    """Only the k-th eligible batch is permuted (systematic probing near the default order)."""

    def __init__(self, rng, at):
        Scheduler.__init__(self)
        self.rng = rng
        self.at = at
        self.name = "one-shot(%d)" % at

    def choose(self, k, batch):
        if k != self.at:
            return None
        n = len(batch)
        perm = list(range(n))
        i = self.rng.randrange(n)
        j = (i + 1 + self.rng.randrange(n - 1)) % n
        perm[i], perm[j] = perm[j], perm[i]
        return perm


class Static(Scheduler):
    """One fixed permutation per emitting node (keyed by the parent's database node and batch size),
    applied to every batch that node emits: what rewriting the program with its clauses in another
    textual order does to the engine."""

    def __init__(self, rng):
        Scheduler.__init__(self)
        self.rng = rng
        self.table = {}
        self.name = "static"

    def choose(self, k, batch):
        key = (tuple(sorted(m[1] if isinstance(m[1], int) else -1 for m in batch)),)
        if key not in self.table:
            ids = sorted(set(m[1] if isinstance(m[1], int) else -1 for m in batch))
            order = list(ids)
            self.rng.shuffle(order)
            self.table[key] = {v: i for i, v in enumerate(order)}
        rank = self.table[key]
        idx = list(range(len(batch)))
        idx.sort(key=lambda i: (rank.get(batch[i][1] if isinstance(batch[i][1], int) else -1, 0), i))
        return idx


class Scripted(Scheduler):
    """Replay: decisions read from the replay file; identity once exhausted."""

    name = "scripted"

    def __init__(self, decisions):
        Scheduler.__init__(self)
        self.script = {int(k): list(p) for k, p in decisions}

    def choose(self, k, batch):
        perm = self.script.get(k)
        if perm is None or sorted(perm) != list(range(len(batch))):
            return None
        return perm


def install_scheduler(s):
    ES._verif_sched = s


# ------------------------------------------------------------------------------------------------
# outcome canonicalisation


_VAR_TOKEN = re.compile(r"(?<![A-Za-z0-9_'])(_[A-Za-z0-9_]*|[A-Z][A-Za-z0-9_]*)(?![A-Za-z0-9_'(])")


_FLOAT_TOKEN = re.compile(r"(?<![A-Za-z0-9_.])\d+\.\d{8,}(?:e-?\d+)?(?![A-Za-z0-9_])")


def canon_term(t, sort_lists):
    """Canonical string of a result term; with sort_lists the elements of every list are sorted.
    Variables of non-ground result terms (e.g. the placeholder of a failed non-ground query) are
    renamed by first occurrence, so that their names do not depend on how the query was built."""
    if not isinstance(t, Term):
        return str(t)
    s = _canon(t) if sort_lists else str(t)
    try:
        ground = t.is_ground()
    except Exception:
        ground = True
    if "." in s:
        s = _FLOAT_TOKEN.sub(lambda m: ("%.9f" % float(m.group(0))).rstrip("0").rstrip("."), s)
    if not ground and "'" not in s and '"' not in s:
        names = {}

        def ren(m):
            return names.setdefault(m.group(1), "V%d" % (len(names) + 1))

        s = _VAR_TOKEN.sub(ren, s)
    return s


def _canon(t):
    if not isinstance(t, Term):
        return str(t)
    if t.functor == "." and t.arity == 2:
        try:
            elems = term2list(t, deep=False)
            return "[" + ", ".join(sorted(_canon(e) for e in elems)) + "]"
        except Exception:
            return str(t)
    if t.arity == 0:
        return str(t)
    if t.functor in ("\\+", "not") and t.arity == 1:
        return "\\+" + _canon(t.args[0])
    return "%s(%s)" % (t.functor, ",".join(_canon(a) for a in t.args))


def site_of(exc, depth=3):
    """Innermost `depth` frames inside problog/, each as module:qualname | source text."""
    frames = []
    tb = exc.__traceback__
    while tb is not None:
        code = tb.tb_frame.f_code
        fn = code.co_filename
        if os.path.abspath(fn).startswith(REPO_PROBLOG):
            mod = os.path.splitext(os.path.basename(fn))[0]
            qn = getattr(code, "co_qualname", code.co_name)
            line = linecache.getline(fn, tb.tb_lineno).strip()
            frames.append("%s:%s | %s" % (mod, qn, line))
        tb = tb.tb_next
    return frames[-depth:][::-1]


def outcome_of_exception(e):
    if isinstance(e, StepBudget):
        return {"kind": "budget", "cls": "StepBudget", "site": []}
    if isinstance(e, CycleBreakBudget):
        return {"kind": "budget", "cls": "CycleBreakBudget", "site": []}
    if isinstance(e, WallBudget):
        return {"kind": "budget", "cls": "CycleBreakBudget", "site": [], "wall": True}
    if isinstance(e, RecursionError):
        return {"kind": "budget", "cls": "RecursionError", "site": site_of(e)}
    if isinstance(e, ProbLogError):
        return {"kind": "err", "cls": type(e).__name__, "site": site_of(e), "msg": str(e)[:200]}
    return {"kind": "crash", "cls": type(e).__name__, "site": site_of(e), "msg": str(e)[:200]}


def kind_tag(o):
    if o["kind"] == "ok":
        return "ok"
    return "%s:%s" % (o["kind"], o["cls"])


def same_outcome(a, b, tol=1e-9):
    if a["kind"] != b["kind"]:
        return False, "kind %s vs %s" % (kind_tag(a), kind_tag(b))
    if a["kind"] != "ok":
        if a["cls"] != b["cls"]:
            return False, "class %s vs %s" % (a["cls"], b["cls"])
        return True, ""
    ra, rb = a["results"], b["results"]
    if set(ra) != set(rb):
        return False, "instances differ: only-left=%s only-right=%s" % (sorted(set(ra) - set(rb))[:4], sorted(set(rb) - set(ra))[:4])
    for k in ra:
        if abs(ra[k] - rb[k]) > tol + tol * abs(ra[k]):
            return False, "probability of %s: %.12g vs %.12g" % (k, ra[k], rb[k])
    return True, ""


# ------------------------------------------------------------------------------------------------
# the pipeline


def default_engine_factory():
    return DefaultEngine()


def run_pipeline(text, engine_factory=None, sched=None, budget=200000, sort_lists=False, propagate_evidence=False,
                 model=None, evaluator="real"):
    """Ground with the real engine, then evaluate. evaluator: "real" (cycle breaking, CNF, dsharp, d-DNNF
    evaluation), "fast" (sim.lfeval on the ground program; falls back to real when unsupported) or
    "both" (real verdict + cross-validation of the fast evaluator; a disagreement is recorded under
    outcome["fast_mismatch"]). Returns an outcome dict."""
    from sim import lfeval

    saved = (CLOCK.steps, CLOCK.budget, CLOCK.cb_calls, CLOCK.cb_budget, CLOCK.crc)
    CLOCK.reset(budget)
    install_scheduler(sched)
    fast = None
    guard = wall_guard(30)
    guard.__enter__()
    try:
        try:
            eng = (engine_factory or default_engine_factory)()
            m = (model() if callable(model) else model) if model is not None else PrologString(text)
            db = eng.prepare(m)
            lf = eng.ground_all(db, propagate_evidence=propagate_evidence)
            install_scheduler(None)
            fast = None
            used = evaluator
            if evaluator in ("fast", "both"):
                try:
                    fres, _info = lfeval.evaluate_lf(lf)
                    fast = {"kind": "ok", "results": _canon_results(fres, sort_lists)}
                except lfeval.Inconsistent:
                    fast = {"kind": "err", "cls": "InconsistentEvidenceError", "site": []}
                except lfeval.Unsupported:
                    fast = None
                    used = "real"
            if used == "fast" and fast is not None:
                o = fast
                o["nodes"] = len(lf)
            else:
                kc = get_evaluatable().create_from(lf)
                res = kc.evaluate()
                o = {"kind": "ok", "results": _canon_results(res, sort_lists), "nodes": len(lf)}
                if fast is not None:
                    o["fast"] = fast
                    ok, why = same_outcome(o, fast, tol=1e-8)
                    if not ok:
                        o["fast_mismatch"] = why
            o["evaluator"] = used
        except (KeyboardInterrupt, SystemExit):
            raise
        except BaseException as e:  # noqa
            o = outcome_of_exception(e)
            if evaluator == "both" and fast is not None:
                o["fast"] = fast
                if kind_tag(fast) != kind_tag(o) and o["kind"] != "budget":
                    o["fast_mismatch"] = "real %s vs fast %s" % (kind_tag(o), kind_tag(fast))
    finally:
        guard.__exit__()
        install_scheduler(None)
    o["steps"] = CLOCK.steps
    o["trace"] = "%08x" % (CLOCK.crc & 0xFFFFFFFF)
    # an enclosing history (C08, C29) keeps its own clock and budgets
    CLOCK.steps, CLOCK.budget, CLOCK.cb_calls, CLOCK.cb_budget, CLOCK.crc = saved
    return o


def _canon_results(res, sort_lists):
    out = {}
    for k, v in res.items():
        key = canon_term(k, sort_lists)
        out[key] = out.get(key, 0.0) + float(v)
    return out
