"""Virtual alarm (S4): deterministic stand-in for util.start_timer's SIGALRM.

Simulated time = number of `line` events executed in frames whose file is under <repo>/problog/.
Alarm(at=T) raises KeyboardInterrupt("sim-timeout") from the trace function at the T-th event: the
exception propagates into the traced frame exactly like one raised by a signal handler between two
bytecodes, and tracing switches itself off. Alarm(at=None) only measures the horizon and records the
event index at which functions of interest are entered (for biased fault placement)."""
import os
import sys

import problog

REPO_PROBLOG = os.path.dirname(os.path.abspath(problog.__file__)) + os.sep


class Alarm(object):
    def __init__(self, at=None, watch=()):
        self.at = at
        self.count = 0
        self.fired = False
        self.where = None
        self.watch = set(watch)
        self.marks = []  # (qualname, event index at entry)
        self._prev = None

    def _global(self, frame, event, arg):
        code = frame.f_code
        if not code.co_filename.startswith(REPO_PROBLOG):
            return None
        if self.watch:
            qn = getattr(code, "co_qualname", code.co_name)
            if qn in self.watch and len(self.marks) < 256:
                self.marks.append((qn, self.count))
        return self._local

    def _local(self, frame, event, arg):
        if event == "line":
            self.count += 1
            if self.count == self.at and not self.fired:
                self.fired = True
                code = frame.f_code
                self.where = "%s:%s:%d" % (os.path.basename(code.co_filename), getattr(code, "co_qualname", code.co_name),
                                           frame.f_lineno)
                raise KeyboardInterrupt("sim-timeout")
        return self._local

    def __enter__(self):
        self._prev = sys.gettrace()
        sys.settrace(self._global)
        return self

    def __exit__(self, *exc):
        sys.settrace(self._prev)
        return False
