"""Seed derivation: one integer (VERIF_SEED) decides everything.

sub(seed, *labels) is a pure function (sha256 of the repr), never hash(), never a clock.
"""
import hashlib
import random


def sub(seed, *labels):
    data = repr((int(seed),) + tuple(labels)).encode()
    return int.from_bytes(hashlib.sha256(data).digest()[:8], "big")


def stream(seed, *labels):
    return random.Random(sub(seed, *labels))


def digest(obj):
    """Stable short digest of a JSON-like / repr-able object."""
    return hashlib.sha256(repr(obj).encode()).hexdigest()[:16]
