"""In-process exact evaluator for a (possibly cyclic) ProbLog ground program (LogicFormula).

Why it exists: on this sandbox process creation does not scale across cores (exec is serialised
system-wide), so the dsharp subprocess of the real pipeline caps the whole machine at ~130 runs/s.
The engine checks therefore run the *real* grounding engine for every schedule/history but judge most
ground programs with this evaluator, and send a fixed fraction through the real compile+evaluate
pipeline as well (which also cross-validates this evaluator on every such run).

Semantics: total choices = independent probabilistic atoms and annotated-disjunction groups
(exactly one member or none); every node's truth table over all total choices is a Python int used
as a bitset; cyclic definitions get the well-founded (least fixpoint / alternating fixpoint)
meaning; P(q | evidence) by summing world weights.
"""
import math


class Unsupported(Exception):
    pass


class Inconsistent(Exception):
    pass


def _prob(p):
    if p is True:
        return None
    try:
        return float(p)
    except Exception:
        raise Unsupported("probability %r" % (p,))


def evaluate_lf(lf, max_worlds=1 << 16):
    nodes = []
    for i, n, t in lf:
        nodes.append((i, n, t))
    # ---- total choices
    indep = []  # (node index, p)
    groups = {}  # group -> [(node index, p)]
    extras = {}
    det = {}
    for i, n, t in nodes:
        if t != "atom":
            continue
        p = n.probability
        if getattr(n, "is_extra", False):
            extras[n.group] = i
            continue
        if p is None or p is True:
            det[i] = True
            continue
        if p is False:
            det[i] = False
            continue
        pv = _prob(p)
        if n.group is None:
            indep.append((i, pv))
        else:
            groups.setdefault(n.group, []).append((i, pv))
    radices = [2] * len(indep) + [len(g) + 1 for g in groups.values()]
    W = 1
    for r in radices:
        W *= r
        if W > max_worlds:
            raise Unsupported("too many worlds")
    FULL = (1 << W) - 1
    # world weights and atom masks
    weights = [1.0]
    masks = {}
    stride = 1
    # build incrementally: worlds indexed mixed radix, first choice = least significant
    def extend(options):
        # options: list of (weight, [atom indices true]) ; returns new weights, updates masks
        nonlocal weights, stride
        old = weights
        n_old = len(old)
        new = []
        for k, (w, _atoms) in enumerate(options):
            new.extend([x * w for x in old])
        block = (1 << n_old) - 1
        for k, (_w, atoms) in enumerate(options):
            for a in atoms:
                masks[a] = masks.get(a, 0) | (block << (k * n_old))
        # existing masks must be replicated for every option
        return new, n_old

    for (i, p) in indep:
        # replicate existing masks
        n_old = len(weights)
        for a in list(masks):
            masks[a] = masks[a] | (masks[a] << n_old)
        weights, _ = extend([(1.0 - p, []), (p, [i])])
    for g, members in groups.items():
        n_old = len(weights)
        k = len(members) + 1
        for a in list(masks):
            m = masks[a]
            acc = 0
            for j in range(k):
                acc |= m << (j * n_old)
            masks[a] = acc
        rest = 1.0 - math.fsum(p for _i, p in members)
        if rest < -1e-9:
            raise Unsupported("AD probabilities sum to more than one")
        opts = [(max(rest, 0.0), [extras[g]] if g in extras else [])] + [(p, [i]) for i, p in members]
        weights, _ = extend(opts)
    assert len(weights) == W
    for i, v in det.items():
        masks[i] = FULL if v else 0
    for g, i in extras.items():
        masks.setdefault(i, 0)

    compound = [(i, n, t) for i, n, t in nodes if t != "atom"]
    has_neg = any(c is not None and c < 0 for _i, n, _t in compound for c in n.children)

    def gamma(neg_ref):
        cur = {i: 0 for i, _n, _t in compound}

        def val(c):
            if c is None:
                return 0
            if c == 0:
                return FULL
            if c > 0:
                v = masks.get(c)
                return v if v is not None else cur[c]
            a = -c
            v = masks.get(a)
            if v is None:
                v = neg_ref[a] if neg_ref is not None else cur[a]
            return FULL & ~v

        changed = True
        rounds = 0
        while changed:
            changed = False
            rounds += 1
            for i, n, t in compound:
                if t == "conj":
                    v = FULL
                    for c in n.children:
                        v &= val(c)
                        if not v:
                            break
                else:
                    v = 0
                    for c in n.children:
                        v |= val(c)
                if v != cur[i]:
                    cur[i] = v
                    changed = True
            if rounds > 10000:
                raise Unsupported("fixpoint does not converge")
        return cur

    if not has_neg:
        value = gamma(None)
        unknown = False
    else:
        # is the formula acyclic w.r.t. node order? then one ordered pass with direct references is exact
        under = {i: 0 for i, _n, _t in compound}
        it = 0
        while True:
            over = gamma(under)
            new_under = gamma(over)
            it += 1
            if new_under == under:
                break
            under = new_under
            if it > 1000:
                raise Unsupported("alternating fixpoint does not converge")
        value = under
        unknown = any(over[i] != under[i] for i in under)

    def node_mask(key):
        if key is None:
            return 0
        if key == 0:
            return FULL
        a = abs(key)
        v = masks.get(a)
        if v is None:
            v = value[a]
        return v if key > 0 else FULL & ~v

    def weight_of(mask):
        if mask == FULL:
            return math.fsum(weights)
        tot = []
        m = mask
        while m:
            low = m & -m
            tot.append(weights[low.bit_length() - 1])
            m ^= low
        return math.fsum(tot)

    ev = FULL
    for name, key, v in lf.evidence_all():
        if v > 0:
            ev &= node_mask(key)
        elif v < 0:
            ev &= FULL & ~node_mask(key)
    pe = weight_of(ev)
    if pe <= 1e-15:
        raise Inconsistent()
    out = {}
    for name, key in lf.queries():
        out[name] = weight_of(node_mask(key) & ev) / pe
    return out, {"worlds": W, "three_valued": unknown}
