"""Parent process of every check: re-exec with a pinned environment, shard pool with watchdog,
merge of shard results, findings policy, evidence and replay files, exit status.

Exit codes: 0 = property held on everything explored (KNOWN-FINDING lines possible),
            1 = at least one VIOLATION line, 2 = HARNESS-ERROR (bug in the machinery, hang, ...).
"""
import argparse
import importlib
import json
import os
import shutil
import subprocess
import sys
import time
import traceback

VERIF = os.path.dirname(os.path.dirname(os.path.abspath(__file__)))
REPO = os.environ.get("VERIF_REPO", "/repo")
GUARD = "ML_KULEUVEN_PROBLOG_VERIF"

CHECKS = {
    "C03": "checks.c03",
    "C04": "checks.c04",
    "C08": "checks.c08",
    "C11": "checks.c11",
    "C22": "checks.c22",
    "C23": "checks.c23",
    "C24": "checks.c24",
    "C29": "checks.c29",
    "C34": "checks.c34",
}


# ----------------------------------------------------------------------------------------------
# environment pinning


def pinned_env(workdir):
    env = dict(os.environ)
    env["PYTHONHASHSEED"] = env.get("VERIF_HASHSEED", "0")
    env[GUARD] = "1"
    env["PYTHONDONTWRITEBYTECODE"] = "1"
    env["VERIF_CHILD"] = "1"
    env["TMPDIR"] = workdir
    env["VERIF_WORKDIR"] = workdir
    env["PYTHONWARNINGS"] = "ignore"
    # the scheduler seed of the repo hook is never taken from the environment by the checks:
    env.pop(GUARD + "_SCHED_SEED", None)
    pp = [VERIF, REPO]
    if env.get("PYTHONPATH"):
        pp.append(env["PYTHONPATH"])
    env["PYTHONPATH"] = os.pathsep.join(pp)
    return env


def reexec(argv):
    """Run ourselves again in a fresh interpreter with the pinned environment."""
    workdir = os.path.join(VERIF, ".work", "%d" % os.getpid())
    os.makedirs(workdir, exist_ok=True)
    try:
        p = subprocess.Popen([sys.executable, os.path.join(VERIF, "check")] + argv, env=pinned_env(workdir),
                             cwd=VERIF)
        try:
            return p.wait()
        except KeyboardInterrupt:
            p.kill()
            return 130
    finally:
        shutil.rmtree(workdir, ignore_errors=True)


# ----------------------------------------------------------------------------------------------
# shard pool: one forked child per shard, result through a file, hang => kill + report


def _child(mod, shard, outfile):
    import faulthandler

    try:
        faulthandler.dump_traceback_later(3 * shard.get("wall_limit_s", 900) + 60, exit=True)
        # the code under test prints diagnostics (e.g. printStack before InvalidEngineState): keep them off our stdout
        devnull = os.open(os.devnull, os.O_WRONLY)
        os.dup2(devnull, 1)
        try:
            import signal
            faulthandler.register(signal.SIGUSR1, all_threads=True)  # kill -USR1 <pid> dumps the Python stack of a shard
        except Exception:
            pass
        t0 = time.time()
        res = mod.run_shard(shard)
        res.setdefault("shard", shard.get("name"))
        res["shard_wall_s"] = {str(shard.get("name")): round(time.time() - t0, 1)}
        with open(outfile + ".tmp", "w") as f:
            json.dump(res, f)
        os.rename(outfile + ".tmp", outfile)
        os._exit(0)
    except BaseException:
        try:
            with open(outfile + ".tmp", "w") as f:
                json.dump({"shard": shard.get("name"), "harness_error": traceback.format_exc()}, f)
            os.rename(outfile + ".tmp", outfile)
        finally:
            os._exit(3)


def run_pool(mod, shards, workers, deadline):
    """Run shards on up to `workers` forked children. Returns list of results in shard order.
    Shards not started before `deadline` are reported as skipped (never silently dropped)."""
    workdir = os.environ.get("VERIF_WORKDIR", "/tmp")
    results = [None] * len(shards)
    running = {}  # pid -> (index, start, outfile)
    nxt = 0
    while nxt < len(shards) or running:
        while nxt < len(shards) and len(running) < workers:
            if time.time() > deadline:
                results[nxt] = {"shard": shards[nxt].get("name"), "skipped": 1}
                nxt += 1
                continue
            outfile = os.path.join(workdir, "shard-%d.json" % nxt)
            sys.stdout.flush()
            sys.stderr.flush()
            pid = os.fork()
            if pid == 0:
                _child(mod, shards[nxt], outfile)
            running[pid] = (nxt, time.time(), outfile)
            nxt += 1
        if not running:
            break
        # reap
        done = []
        for pid, (idx, start, outfile) in running.items():
            r, status = os.waitpid(pid, os.WNOHANG)
            if r == pid:
                done.append(pid)
                if os.path.exists(outfile):
                    with open(outfile) as f:
                        results[idx] = json.load(f)
                    os.unlink(outfile)
                else:
                    results[idx] = {"shard": shards[idx].get("name"),
                                    "harness_error": "shard died without result, status=%r" % (status,)}
            elif time.time() - start > 3 * shards[idx].get("wall_limit_s", 900) + 120:
                try:
                    os.kill(pid, 9)
                except OSError:
                    pass
                os.waitpid(pid, 0)
                done.append(pid)
                results[idx] = {"shard": shards[idx].get("name"), "harness_error": "shard hang (killed)"}
        for pid in done:
            del running[pid]
        if not done:
            time.sleep(0.02)
    return results


# ----------------------------------------------------------------------------------------------
# merging


def merge_into(acc, res):
    for k, v in res.items():
        if k in ("shard",):
            continue
        if isinstance(v, bool):
            acc[k] = bool(acc.get(k)) or v
        elif isinstance(v, (int, float)):
            acc[k] = acc.get(k, 0) + v
        elif isinstance(v, dict):
            merge_into(acc.setdefault(k, {}), v)
        elif isinstance(v, list):
            acc.setdefault(k, []).extend(v)
        elif isinstance(v, str):
            acc.setdefault(k, [])
            if isinstance(acc[k], list):
                acc[k].append(v)
        elif v is None:
            acc.setdefault(k, None)
    return acc


# ----------------------------------------------------------------------------------------------
# findings


def load_findings(prop):
    path = os.path.join(VERIF, "known_findings.json")
    if not os.path.exists(path):
        return []
    with open(path) as f:
        doc = json.load(f)
    return [e for e in doc.get("findings", []) if prop in e.get("properties", [e.get("property")])]


def finding_matches(entry, viol):
    """A violation is attributed to an open finding only if every recorded component matches."""
    if entry.get("status") != "open":
        return False
    sig = entry.get("signature", {})
    v = viol.get("match", {})
    for key, want in sig.items():
        have = v.get(key)
        if key == "requires_tags":
            if not set(want) <= set(v.get("tags", [])):
                return False
        elif key.endswith("_prefix_in"):
            if not any(str(v.get(key[:-10], "")).startswith(p) for p in want):
                return False
        elif key.endswith("_in"):
            if v.get(key[:-3]) not in want:
                return False
        elif isinstance(want, list) and not isinstance(have, list):
            if have not in want:
                return False
        else:
            if have != want:
                return False
    return True


# ----------------------------------------------------------------------------------------------
# main


def main(argv=None):
    argv = list(sys.argv[1:] if argv is None else argv)
    ap = argparse.ArgumentParser(prog="check")
    ap.add_argument("property")
    ap.add_argument("--tier", default=None)
    ap.add_argument("--replay", default=None)
    ap.add_argument("--workers", type=int, default=None)
    ap.add_argument("--no-evidence", action="store_true", help="do not rewrite the evidence file (self-tests)")
    ap.add_argument("--digest-only", action="store_true", help="print the determinism digest and exit")
    ap.add_argument("--scale", type=float, default=1.0, help="multiply the number of runs (soak)")
    args = ap.parse_args(argv)

    if os.environ.get("VERIF_CHILD") != "1":
        return reexec(argv)

    prop = args.property.upper()
    if prop not in CHECKS:
        print("HARNESS-ERROR unknown property %s" % prop)
        return 2
    tier = os.environ.get("VERIF_TIER") or args.tier or "quick"
    if tier not in ("quick", "thorough"):
        tier = "quick"
    try:
        seed = int(os.environ.get("VERIF_SEED", "0"))
    except ValueError:
        seed = 0
    print("VERIF_SEED=%d property=%s tier=%s" % (seed, prop, tier))
    sys.stdout.flush()
    sys.path.insert(0, VERIF)
    mod = importlib.import_module(CHECKS[prop])

    if args.replay:
        return do_replay(mod, prop, args.replay)

    t0 = time.time()
    workers = args.workers or int(os.environ.get("VERIF_WORKERS", "0")) or min(16, os.cpu_count() or 1)
    findings = load_findings(prop)

    # 1. replay the witnesses of listed findings (open: KNOWN-FINDING line; fixed: regression case)
    known_lines = []
    violations = []
    finding_report = {}
    for e in findings:
        wits = e.get("witnesses") or ([e["witness"]] if e.get("witness") else [])
        for wit in wits:
            wpath = os.path.join(VERIF, wit)
            with open(wpath) as f:
                doc = json.load(f)
            if doc.get("property") != prop:
                continue
            got = mod.replay(doc)
            reproduced = [v for v in got if v.get("signature") == doc.get("expected_signature")]
            rep = finding_report.setdefault(e["id"], {"status": e.get("status"), "witnesses": {}, "absorbed": 0})
            if e.get("status") == "open":
                rep["witnesses"][wit] = bool(reproduced)
                if reproduced:
                    line = "KNOWN-FINDING: property=%s %s %s" % (prop, e["id"], e["what"])
                    if line not in known_lines:
                        known_lines.append(line)
                else:
                    print("note: finding %s: witness %s no longer reproduces on this tree" % (e["id"], wit))
                    # anything else the witness shows is an ordinary violation (subject to the findings policy)
                    violations.extend(got)
            else:  # fixed entries suppress nothing: the witness is a regression case
                rep["witnesses"][wit] = "regressed" if got else "holds"
                violations.extend(got)

    # 2. explore
    limit = float(os.environ.get("VERIF_WALL_S", "0")) or getattr(mod, "WALL_S", {"quick": 240, "thorough": 3000})[tier]
    shards = mod.shards(tier, seed, args.scale)
    results = run_pool(mod, shards, workers, t0 + limit)
    acc = {}
    harness_errors = []
    skipped = 0
    for r in results:
        if r is None:
            harness_errors.append("missing shard result")
            continue
        if "harness_error" in r:
            harness_errors.append("%s: %s" % (r.get("shard"), r["harness_error"]))
            continue
        if r.get("skipped"):
            skipped += 1
            continue
        merge_into(acc, r)
    violations.extend(acc.pop("violations", []))
    if hasattr(mod, "post_merge"):
        violations.extend(mod.post_merge(acc))

    if args.digest_only:
        from sim.seeds import digest
        acc.pop("wall", None)
        acc.pop("shard_wall_s", None)
        print("DIGEST %s" % digest(json.dumps([acc, [v.get("signature") for v in violations]], sort_keys=True)))
        return 0

    # 3. findings policy
    new_violations = []
    for v in violations:
        owner = None
        for e in findings:
            if finding_matches(e, v):
                owner = e
                break
        if owner is not None:
            finding_report.setdefault(owner["id"], {"absorbed": 0})
            finding_report[owner["id"]]["absorbed"] = finding_report[owner["id"]].get("absorbed", 0) + 1 + v.get("count_more", 0)
            line = "KNOWN-FINDING: property=%s %s %s" % (prop, owner["id"], owner["what"])
            if line not in known_lines:
                known_lines.append(line)
        else:
            new_violations.append(v)

    # 4. write replays for new violations, verify each in a fresh process
    rc = 0
    out_lines = []
    seen_sig = {}
    for v in new_violations:
        key = v.get("signature")
        if key in seen_sig:
            continue
        seen_sig[key] = 1
        if len(seen_sig) > 25:
            break
        path = write_replay(prop, v, seed)
        ok = verify_replay(prop, path, v.get("signature"))
        if ok:
            out_lines.append("VIOLATION property=%s replay=%s sig=%s :: %s" % (prop, path, v.get("signature"), v.get("summary", "")))
            rc = 1
        else:
            harness_errors.append("replay of %s did not reproduce %s in a fresh process" % (path, v.get("signature")))

    wall = time.time() - t0
    n_eval = acc.get("evaluations", 0)
    n_nontrivial = len(set(acc.get("nontrivial", [])))
    if not args.no_evidence:
        write_evidence(mod, prop, tier, seed, acc, wall, len(out_lines), finding_report, harness_errors, skipped,
                       len(shards), workers)
    for line in known_lines:
        print(line)
    for line in out_lines:
        print(line)
    for h in harness_errors:
        print("HARNESS-ERROR %s" % h.strip().splitlines()[-1])
        sys.stderr.write(h + "\n")
    summary = "property=%s tier=%s seed=%d evaluations=%d distinct_nontrivial=%d violations=%d known=%d wall=%.1fs skipped_shards=%d" % (
        prop, tier, seed, n_eval, n_nontrivial, len(out_lines),
        len(known_lines), wall, skipped)
    print("SUMMARY " + summary)
    if rc == 0 and harness_errors:
        return 2
    return rc


def write_replay(prop, v, seed):
    from sim.seeds import digest

    d = os.path.join(VERIF, "replays", prop)
    os.makedirs(d, exist_ok=True)
    doc = dict(v.get("replay", {}))
    doc["property"] = prop
    doc["expected_signature"] = v.get("signature")
    doc["summary"] = v.get("summary")
    doc["match"] = v.get("match")
    doc.setdefault("found_by", {})["VERIF_SEED"] = seed
    name = "%s-%s.json" % ("".join(c if c.isalnum() else "_" for c in str(v.get("signature")))[:60], digest(doc))
    path = os.path.join(d, name)
    with open(path, "w") as f:
        json.dump(doc, f, indent=1, sort_keys=True)
    return path


def verify_replay(prop, path, signature):
    env = dict(os.environ)
    env.pop("VERIF_CHILD", None)
    try:
        out = subprocess.run([sys.executable, os.path.join(VERIF, "check"), prop, "--replay", path],
                             env=env, cwd=VERIF, capture_output=True, text=True, timeout=600)
    except subprocess.TimeoutExpired:
        return False
    return ("VIOLATION property=%s" % prop) in out.stdout and ("sig=%s" % signature) in out.stdout


def do_replay(mod, prop, path):
    with open(path) as f:
        doc = json.load(f)
    got = mod.replay(doc)
    want = doc.get("expected_signature")
    hit = [v for v in got if want is None or v.get("signature") == want]
    for v in hit[:1]:
        print("VIOLATION property=%s replay=%s sig=%s :: %s" % (prop, path, v.get("signature"), v.get("summary", "")))
    if hit:
        return 1
    for v in got:
        print("note: replay shows a different violation sig=%s :: %s" % (v.get("signature"), v.get("summary", "")))
    print("replay: no violation with signature %s" % want)
    return 0


def write_evidence(mod, prop, tier, seed, acc, wall, nviol, finding_report, harness_errors, skipped, nshards,
                   workers):
    meta = getattr(mod, "META", {})
    nontrivial = set(acc.pop("nontrivial", []))
    traces = set(acc.pop("traces", []))
    samples = acc.pop("samples", [])[:3]
    evaluations = int(acc.pop("evaluations", 0))
    cov = {
        "evaluations": evaluations,
        "distinct_nontrivial": len(nontrivial),
        "rule": meta.get("rule", ""),
        "samples": samples,
        "runs_per_hour": int(evaluations / wall * 3600) if wall > 0 else 0,
        "simulated_time": acc.pop("simulated_time", {}),
        "faults_injected": acc.pop("faults_injected", {}),
        "distinct_traces": len(traces),
        "distinct_traces_measure": meta.get("trace_measure", ""),
        "probes": acc.pop("probes", {}),
        "pools": acc.pop("pools", {}),
        "inconclusive": acc.pop("inconclusive", {}),
        "known_findings": finding_report,
        "components": meta.get("components", {}),
        "shards": {"planned": nshards, "skipped_for_wall_limit": skipped, "workers": workers},
        "harness_errors": len(harness_errors),
    }
    probes_zero = sorted(k for k, v in cov["probes"].items() if v == 0)
    if probes_zero:
        cov["probes_stuck_at_zero"] = probes_zero
    for k, v in acc.items():
        if k not in cov and k != "wall":
            cov.setdefault("extra", {})[k] = v if not isinstance(v, list) else v[:20]
    doc = {
        "property_id": prop,
        "tier": tier,
        "seed": seed,
        "level": "exploration",
        "coverage": cov,
        "assumptions": meta.get("assumptions", []),
        "wall_s": round(wall, 2),
        "violations": nviol,
    }
    os.makedirs(os.path.join(VERIF, "evidence"), exist_ok=True)
    path = os.path.join(VERIF, "evidence", "%s.json" % prop)
    with open(path + ".tmp", "w") as f:
        json.dump(doc, f, indent=1, sort_keys=True)
    os.rename(path + ".tmp", path)
