"""Seeded generator of predicate-stratified, range-restricted ProbLog programs as an AST.

The same AST is printed for ProbLog and interpreted by the reference model (sim/ref.py).

AST
  atom    = [pred, [arg, ...]]         arg: lower-case constant or upper-case variable name
  literal = [positive(bool), atom]
  clause  = {"heads": [[prob-or-None, atom], ...], "body": [literal, ...]}
            prob None only for a single head (deterministic fact / rule)
  program = {"consts": [...], "clauses": [...], "queries": [atom...], "evidence": [[atom, bool, style]...]}
"""
import json

VARS = ["X", "Y", "Z"]


def is_var(a):
    return a[:1].isupper() or a[:1] == "_"


def atom_str(atom):
    pred, args = atom
    if not args:
        return pred
    return "%s(%s)" % (pred, ",".join(args))


def lit_str(lit):
    pos, atom = lit
    return atom_str(atom) if pos else "\\+" + atom_str(atom)


def fmt_prob(p):
    if isinstance(p, str):
        return p
    s = "%.4f" % p
    s = s.rstrip("0")
    if s.endswith("."):
        s += "0"
    return s


def clause_str(cl):
    heads = []
    for p, atom in cl["heads"]:
        if p is None:
            heads.append(atom_str(atom))
        else:
            heads.append("%s::%s" % (fmt_prob(p), atom_str(atom)))
    s = "; ".join(heads)
    if cl["body"]:
        s += " :- " + ", ".join(lit_str(l) for l in cl["body"])
    return s + "."


def program_text(prog, with_queries=True, with_evidence=True):
    lines = [clause_str(c) for c in prog["clauses"]]
    if with_queries:
        for q in prog.get("queries", []):
            lines.append("query(%s)." % atom_str(q))
    if with_evidence:
        for atom, val, style in prog.get("evidence", []):
            lines.append(evidence_str(atom, val, style))
    return "\n".join(lines) + "\n"


def evidence_str(atom, val, style):
    a = atom_str(atom)
    if style == 0:
        return "evidence(%s,%s)." % (a, "true" if val else "false")
    if val:
        return "evidence(%s)." % a
    return "evidence(\\+%s)." % a


def atom_vars(atom):
    return [a for a in atom[1] if is_var(a)]


# ------------------------------------------------------------------------------------------------


def default_features(rng):
    """Swarm: each run enables a random subset of features."""
    f = {
        "ads": rng.random() < 0.6,
        "ad_body": rng.random() < 0.5,
        "prob_rules": rng.random() < 0.5,
        "negation": rng.random() < 0.6,
        "recursion": rng.random() < 0.7,
        "mutual": rng.random() < 0.4,
        "nonground_prob": rng.random() < 0.4,
        "det_facts": rng.random() < 0.5,
        "evidence": rng.random() < 0.5,
        "nonground_query": rng.random() < 0.5,
        "duplicate_fact": rng.random() < 0.2,
        "arity2": rng.random() < 0.6,
        "tc": rng.random() < 0.3,
        "overload": rng.random() < 0.25,
    }
    return f


def gen_program(rng, feat=None, size=None):
    if feat is None:
        feat = default_features(rng)
    if size is None:
        size = rng.choice([1, 2, 2, 3])
    nconst = rng.choice([1, 2, 2, 3, 3])
    consts = ["a", "b", "c"][:nconst]
    clauses = []
    preds = {}  # name -> (arity, stratum)

    def arity():
        if feat["arity2"]:
            return rng.choice([0, 1, 1, 2])
        return rng.choice([0, 1])

    def P():
        return rng.choice([0.1, 0.2, 0.3, 0.4, 0.5, 0.6, 0.7, 0.8, 0.9, 0.25, 0.15])

    def ground_args(n):
        return [rng.choice(consts) for _ in range(n)]

    need_dom = [False]

    # ---- base predicates (stratum 0)
    nbase = rng.randint(1, 1 + size)
    for i in range(nbase):
        name = "f%d" % i
        ar = arity()
        preds[name] = (ar, 0)
        nf = rng.randint(1, 2 + size) if ar else 1
        made = 0
        for _ in range(nf):
            r = rng.random()
            if feat["ads"] and ar >= 1 and r < 0.25 and nconst >= 2:
                # annotated disjunction over facts
                k = rng.randint(2, min(3, nconst + 1))
                total = 0.0
                heads = []
                for _h in range(k):
                    p = rng.choice([0.1, 0.2, 0.3, 0.25])
                    if total + p > 1.0:
                        break
                    total += p
                    heads.append([p, [name, ground_args(ar)]])
                if rng.random() < 0.3 and heads:
                    # make it sum to exactly one
                    rest = round(1.0 - sum(h[0] for h in heads[:-1]), 4)
                    heads[-1][0] = rest
                clauses.append({"heads": heads, "body": []})
            elif feat["nonground_prob"] and ar >= 1 and r < 0.45:
                args = [rng.choice(VARS[:ar]) for _ in range(ar)]
                if ar == 2 and rng.random() < 0.3:
                    args[rng.randrange(2)] = rng.choice(consts)
                body = [[True, ["dom", [v]]] for v in sorted(set(a for a in args if is_var(a)))]
                need_dom[0] = True
                clauses.append({"heads": [[P(), [name, args]]], "body": body})
            elif feat["det_facts"] and r < 0.6:
                clauses.append({"heads": [[None, [name, ground_args(ar)]]], "body": []})
            else:
                cl = {"heads": [[P(), [name, ground_args(ar)]]], "body": []}
                clauses.append(cl)
                if feat["duplicate_fact"] and rng.random() < 0.5:
                    clauses.append({"heads": [[P(), [name, list(cl["heads"][0][1][1])]]], "body": []})
            made += 1

    # ---- derived predicates
    nder = rng.randint(1, 2 + size)
    nstrata = rng.choice([1, 2, 2, 3])
    for i in range(nder):
        name = "p%d" % i
        preds[name] = (arity(), 1 + (rng.randrange(nstrata) if not feat["mutual"] else min(i * nstrata // max(nder, 1), nstrata - 1)))
    der = [n for n in preds if n.startswith("p")]

    if feat["tc"] and feat["arity2"]:
        # a transitive-closure shaped pair: guarantees non-ground recursive calls
        e = rng.choice([n for n in preds if preds[n][0] == 2] or [None])
        if e is not None and preds[e][1] == 0:
            name = "p%d" % len(der)
            preds[name] = (2, rng.randint(1, nstrata))
            der.append(name)
            clauses.append({"heads": [[None, [name, ["X", "Y"]]]], "body": [[True, [e, ["X", "Y"]]]]})
            if rng.random() < 0.5:
                clauses.append({"heads": [[None, [name, ["X", "Y"]]]],
                                "body": [[True, [e, ["X", "Z"]]], [True, [name, ["Z", "Y"]]]]})
            else:
                clauses.append({"heads": [[None, [name, ["X", "Y"]]]],
                                "body": [[True, [name, ["X", "Z"]]], [True, [e, ["Z", "Y"]]]]})

    def mk_args(ar, pool_vars, pconst=0.3):
        out = []
        for _ in range(ar):
            if rng.random() < pconst or not pool_vars:
                out.append(rng.choice(consts))
            else:
                out.append(rng.choice(pool_vars))
        return out

    def mk_body(stratum, head_vars, own):
        nlit = rng.randint(1, 3)
        body = []
        pool = VARS[: rng.randint(1, 3)]
        for _ in range(nlit):
            neg = feat["negation"] and rng.random() < 0.3
            if neg:
                cands = [n for n in preds if preds[n][1] < stratum]
                lower_derived = [n for n in cands if n.startswith("p")]
                if lower_derived and rng.random() < 0.6:
                    cands = lower_derived  # negation over derived (possibly recursive) predicates
            else:
                cands = [n for n in preds if preds[n][1] < stratum]
                same = [n for n in preds if preds[n][1] == stratum]
                if feat["recursion"] and same and rng.random() < 0.5:
                    cands = same if feat["mutual"] or own not in same else [own]
            if not cands:
                continue
            pn = rng.choice(cands)
            body.append([not neg, [pn, mk_args(preds[pn][0], pool)]])
        return body

    def restrict(heads, body):
        """Range restriction: every variable of a head or of a negative literal must be bound by an
        earlier positive literal; insert dom/1 guards where needed."""
        out = []
        bound = set()
        for pos, atom in body:
            if pos:
                out.append([pos, atom])
                bound.update(atom_vars(atom))
            else:
                for v in atom_vars(atom):
                    if v not in bound:
                        out.append([True, ["dom", [v]]])
                        need_dom[0] = True
                        bound.add(v)
                out.append([pos, atom])
        for _p, h in heads:
            for v in atom_vars(h):
                if v not in bound:
                    out.insert(0, [True, ["dom", [v]]])
                    need_dom[0] = True
                    bound.add(v)
        return out

    for name in der:
        ar, st = preds[name]
        nrules = rng.randint(1, 1 + size)
        for _ in range(nrules):
            hv = VARS[:ar]
            hargs = mk_args(ar, hv, pconst=0.25)
            r = rng.random()
            if feat["det_facts"] and r < 0.12:
                clauses.append({"heads": [[None, [name, ground_args(ar)]]], "body": []})
                continue
            body = mk_body(st, hargs, name)
            if feat["ads"] and feat["ad_body"] and r < 0.3:
                mates = [n for n in der if preds[n][1] == st]
                heads = []
                total = 0.0
                for _h in range(rng.randint(1, 3)):
                    p = rng.choice([0.1, 0.2, 0.3, 0.4])
                    if total + p > 1.0:
                        break
                    total += p
                    hn = rng.choice(mates)
                    heads.append([p, [hn, mk_args(preds[hn][0], VARS[:max(ar, 1)], pconst=0.3)]])
                if not heads:
                    heads = [[0.5, [name, hargs]]]
            elif feat["prob_rules"] and r < 0.5:
                heads = [[P(), [name, hargs]]]
            else:
                heads = [[None, [name, hargs]]]
            body = restrict(heads, body)
            if not body and heads[0][0] is None and any(is_var(a) for a in heads[0][1][1]):
                continue
            clauses.append({"heads": heads, "body": body})

    if need_dom[0] or rng.random() < 0.2:
        nd = rng.randint(1, nconst)
        for c in consts[:nd]:
            clauses.append({"heads": [[None, ["dom", [c]]]], "body": []})
        preds["dom"] = (1, 0)

    # every predicate that is called must be defined: add a failing-safe definition
    defined = set(h[1][0] for c in clauses for h in c["heads"])
    called = set(l[1][0] for c in clauses for l in c["body"])
    for pn in sorted(called - defined):
        ar = preds.get(pn, (1, 0))[0]
        clauses.append({"heads": [[P(), [pn, ground_args(ar)]]], "body": []})
    defined = set(h[1][0] for c in clauses for h in c["heads"])

    if feat.get("overload"):
        # one functor with two arities: rename a predicate to the name of another one with a different arity
        arities = {}
        for c in clauses:
            for _p, h in c["heads"]:
                arities[h[0]] = len(h[1])
        names = sorted(n for n in arities if n != "dom")
        pairs = [(a, b) for a in names for b in names if a != b and arities[a] != arities[b] and a[0] == b[0]]
        if pairs:
            src, dst = rng.choice(pairs)

            def ren(at):
                if at[0] == src:
                    at[0] = dst
            for c in clauses:
                for _p, h in c["heads"]:
                    ren(h)
                for _pos, at in c["body"]:
                    ren(at)
            preds[dst + "/%d" % arities[src]] = preds.get(src, (arities[src], 0))
            renamed = (src, dst, arities[src])
        else:
            renamed = None
    else:
        renamed = None

    if rng.random() < 0.7:
        rng.shuffle(clauses)

    # ---- queries and evidence
    sigs = sorted(set((h[1][0], len(h[1][1])) for c in clauses for h in c["heads"] if h[1][0] != "dom"))
    qpreds = sigs
    dq = [sg for sg in qpreds if sg[0].startswith("p")] or qpreds
    queries = []
    for _ in range(rng.randint(1, 3)):
        pn, ar = rng.choice(dq if rng.random() < 0.8 else qpreds)
        if feat["nonground_query"] and ar and rng.random() < 0.5:
            args = [rng.choice(VARS[:ar]) if rng.random() < 0.7 else rng.choice(consts) for _ in range(ar)]
        else:
            args = ground_args(ar)
        q = [pn, args]
        if q not in queries:
            queries.append(q)
    evidence = []
    if feat["evidence"]:
        for _ in range(rng.randint(1, 2)):
            pn, ar = rng.choice(qpreds)
            atom = [pn, ground_args(ar)]
            if any(e[0] == atom for e in evidence):
                continue
            evidence.append([atom, rng.random() < 0.6, rng.randrange(2)])
    return {"consts": consts, "clauses": clauses, "queries": queries, "evidence": evidence,
            "features": sorted(k for k, v in feat.items() if v)}


def program_digest(prog):
    import hashlib
    return hashlib.sha256(json.dumps([prog["clauses"], prog["queries"], prog["evidence"]], sort_keys=True).encode()).hexdigest()[:16]


def is_valid(prog):
    """Range restriction + every called predicate is defined (the guarantees the generator gives;
    the minimiser must not leave them)."""
    defined = set((h[1][0], len(h[1][1])) for c in prog["clauses"] for h in c["heads"])
    for c in prog["clauses"]:
        bound = set()
        for pos, at in c["body"]:
            if (at[0], len(at[1])) not in defined:
                return False
            if pos:
                bound.update(atom_vars(at))
            else:
                if any(v not in bound for v in atom_vars(at)):
                    return False
        for _p, h in c["heads"]:
            if any(v not in bound for v in atom_vars(h)):
                return False
        if len(c["heads"]) > 1 and any(p is None for p, _h in c["heads"]):
            return False
    for q in prog.get("queries", []):
        if (q[0], len(q[1])) not in defined:
            return False
    for e in prog.get("evidence", []):
        if (e[0][0], len(e[0][1])) not in defined:
            return False
    return True


# ------------------------------------------------------------------------------------------------
# parser for the generator's own output format (used to recompute tags of stored witnesses)

import re

_ATOM = re.compile(r"\s*(\\\+)?\s*([a-z][A-Za-z0-9_]*)(?:\(([^()]*)\))?\s*")


def _parse_atom(s):
    m = _ATOM.fullmatch(s)
    if not m:
        raise ValueError("cannot parse atom %r" % s)
    args = [a.strip() for a in m.group(3).split(",")] if m.group(3) is not None else []
    return (m.group(1) is None), [m.group(2), args]


def _split_top(s, sep):
    out, depth, cur = [], 0, ""
    for ch in s:
        if ch == "(":
            depth += 1
        elif ch == ")":
            depth -= 1
        if ch == sep and depth == 0:
            out.append(cur)
            cur = ""
        else:
            cur += ch
    out.append(cur)
    return out


def parse_text(text):
    clauses, queries, evidence, consts = [], [], [], set()
    for line in text.splitlines():
        line = line.strip()
        if not line or line.startswith("%"):
            continue
        assert line.endswith("."), line
        line = line[:-1]
        if line.startswith("query(") and ":-" not in line:
            queries.append(_parse_atom(line[6:-1])[1])
            continue
        if line.startswith("evidence(") and ":-" not in line:
            inner = line[9:-1]
            parts = _split_top(inner, ",")
            if len(parts) == 2 and parts[1].strip() in ("true", "false"):
                evidence.append([_parse_atom(parts[0])[1], parts[1].strip() == "true", 0])
            else:
                pos, at = _parse_atom(inner)
                evidence.append([at, pos, 1])
            continue
        if ":-" in line:
            h, b = line.split(":-", 1)
            body = [list(_parse_atom(x)) for x in _split_top(b, ",")]
        else:
            h, body = line, []
        heads = []
        for hs in _split_top(h, ";"):
            hs = hs.strip()
            if "::" in hs:
                p, a = hs.split("::", 1)
                heads.append([float(p), _parse_atom(a)[1]])
            else:
                heads.append([None, _parse_atom(hs)[1]])
        clauses.append({"heads": heads, "body": body})
    for c in clauses:
        for _p, h in c["heads"]:
            consts.update(a for a in h[1] if not is_var(a))
        for _pos, at in c["body"]:
            consts.update(a for a in at[1] if not is_var(a))
    for q in queries:
        consts.update(a for a in q[1] if not is_var(a))
    for e in evidence:
        consts.update(a for a in e[0][1] if not is_var(a))
    return {"consts": sorted(consts) or ["a"], "clauses": clauses, "queries": queries, "evidence": evidence}


def tags_of_text(text):
    from sim import ref
    try:
        return ref.Ref(parse_text(text)).tags()
    except Exception:
        return None
