"""Reference semantics, independent of all ProbLog code.

Naive relevant grounding of the AST over the constant domain, enumeration of the total choices that
matter for the queries and evidence, well-founded model per world by the alternating fixpoint
(for stratified programs this is the perfect model and is two-valued), exact rational arithmetic.
Also: static feature tags computed on the ground dependency graph.
"""
from fractions import Fraction
from itertools import product

from sim.gen import is_var, atom_str


def frac(p):
    return Fraction(str(p))


def subst_atom(atom, th):
    return (atom[0], tuple(th.get(a, a) for a in atom[1]))


def gstr(ga):
    return atom_str([ga[0], list(ga[1])])


def clause_vars(cl):
    vs = []
    for _p, h in cl["heads"]:
        for a in h[1]:
            if is_var(a) and a not in vs:
                vs.append(a)
    for _pos, at in cl["body"]:
        for a in at[1]:
            if is_var(a) and a not in vs:
                vs.append(a)
    return vs


def match(pattern, ground):
    """Unify a (possibly non-ground, possibly repeated-variable) atom with a ground atom."""
    if pattern[0] != ground[0] or len(pattern[1]) != len(ground[1]):
        return None
    th = {}
    for a, g in zip(pattern[1], ground[1]):
        if is_var(a):
            if a == "_":
                continue
            if th.setdefault(a, g) != g:
                return None
        elif a != g:
            return None
    return th


class TooBig(Exception):
    pass


class Ref(object):
    def __init__(self, prog, max_worlds=4096, max_instances=4000):
        self.prog = prog
        self.consts = list(prog["consts"])
        self.max_worlds = max_worlds
        self._ground(max_instances)
        self._cone()

    # ---- relevant grounding -----------------------------------------------------------------
    def _ground(self, max_instances):
        clauses = self.prog["clauses"]
        cvars = [clause_vars(c) for c in clauses]
        substs = []
        for vs in cvars:
            substs.append([dict(zip(vs, vals)) for vals in product(self.consts, repeat=len(vs))])
        pt = set()
        changed = True
        while changed:
            changed = False
            for ci, cl in enumerate(clauses):
                for th in substs[ci]:
                    ok = True
                    for pos, at in cl["body"]:
                        if pos and subst_atom(at, th) not in pt:
                            ok = False
                            break
                    if ok:
                        for _p, h in cl["heads"]:
                            ga = subst_atom(h, th)
                            if ga not in pt:
                                pt.add(ga)
                                changed = True
        self.possibly_true = pt
        # ground rules and choices
        self.rules = []  # (head, pos tuple, neg tuple, choice index or None, outcome index)
        self.choices = []  # list of list of Fraction (outcome probabilities); implicit "none" outcome
        self.choice_src = []  # (clause index, substitution tuple)
        for ci, cl in enumerate(clauses):
            prob = cl["heads"][0][0] is not None
            for th in substs[ci]:
                pos = tuple(subst_atom(at, th) for p, at in cl["body"] if p)
                if any(a not in pt for a in pos):
                    continue
                neg = tuple(subst_atom(at, th) for p, at in cl["body"] if not p)
                if prob:
                    k = len(self.choices)
                    self.choices.append([frac(p) for p, _h in cl["heads"]])
                    self.choice_src.append((ci, tuple(sorted(th.items()))))
                    for oi, (_p, h) in enumerate(cl["heads"]):
                        self.rules.append((subst_atom(h, th), pos, neg, k, oi))
                else:
                    self.rules.append((subst_atom(cl["heads"][0][1], th), pos, neg, None, 0))
                if len(self.rules) > max_instances:
                    raise TooBig("ground instances")
        self.by_head = {}
        for r in self.rules:
            self.by_head.setdefault(r[0], []).append(r)

    # ---- query instances, cone ----------------------------------------------------------------
    def instances(self, pattern):
        pat = (pattern[0], tuple(pattern[1]))
        if not any(is_var(a) for a in pat[1]):
            return [pat]
        return sorted(ga for ga in self.possibly_true if match(pat, ga) is not None)

    def _cone(self):
        self.query_atoms = []
        for q in self.prog.get("queries", []):
            for ga in self.instances(q):
                if ga not in self.query_atoms:
                    self.query_atoms.append(ga)
        self.evidence_atoms = [((e[0][0], tuple(e[0][1])), bool(e[1])) for e in self.prog.get("evidence", [])]
        need = set(self.query_atoms) | set(a for a, _ in self.evidence_atoms)
        todo = list(need)
        while todo:
            a = todo.pop()
            for r in self.by_head.get(a, []):
                for b in r[1] + r[2]:
                    if b not in need:
                        need.add(b)
                        todo.append(b)
        self.cone = need
        self.cone_rules = [r for r in self.rules if r[0] in need]
        rel = sorted(set(r[3] for r in self.cone_rules if r[3] is not None))
        self.rel_choices = rel

    def nworlds(self):
        n = 1
        for k in self.rel_choices:
            outs = self.choices[k]
            n *= len(outs) + (1 if sum(outs) < 1 else 0)
        return n

    # ---- model of one world ----------------------------------------------------------------------
    def model(self, sel, rules=None):
        """sel: dict choice index -> outcome index (or None for 'no head'). Returns (true set, unknown set)."""
        rules = self.cone_rules if rules is None else rules
        act = [r for r in rules if r[3] is None or sel.get(r[3], None) == r[4]]

        def gamma(interp):
            # least model of the reduct w.r.t. interp
            cur = set()
            red = [(h, pos) for (h, pos, neg, _k, _o) in act if not any(n in interp for n in neg)]
            changed = True
            while changed:
                changed = False
                for h, pos in red:
                    if h not in cur and all(p in cur for p in pos):
                        cur.add(h)
                        changed = True
            return cur

        if not any(r[2] for r in act):
            t = gamma(set())
            return t, set()
        under = set()
        while True:
            over = gamma(under)
            new_under = gamma(over)
            if new_under == under:
                break
            under = new_under
        return under, over - under

    def worlds(self):
        """Yield (weight, selection dict) over the relevant choices."""
        if self.nworlds() > self.max_worlds:
            raise TooBig("worlds")
        opts = []
        for k in self.rel_choices:
            outs = self.choices[k]
            o = [(p, i) for i, p in enumerate(outs) if p > 0]
            rest = 1 - sum(outs)
            if rest > 0:
                o.append((rest, None))
            opts.append(o)
        for combo in product(*opts):
            w = Fraction(1)
            sel = {}
            for k, (p, i) in zip(self.rel_choices, combo):
                w *= p
                sel[k] = i
            yield w, sel

    def solve(self):
        """Returns dict with exact conditional query probabilities."""
        pe = Fraction(0)
        pq = {a: Fraction(0) for a in self.query_atoms}
        prior = {a: Fraction(0) for a in self.query_atoms}
        three_valued = False
        nw = 0
        for w, sel in self.worlds():
            nw += 1
            true, unknown = self.model(sel)
            if unknown:
                three_valued = True
            for a in self.query_atoms:
                if a in true:
                    prior[a] += w
            if all((a in true) == v for a, v in self.evidence_atoms):
                pe += w
                for a in self.query_atoms:
                    if a in true:
                        pq[a] += w
        res = {"worlds": nw, "evidence_prob": pe, "three_valued": three_valued, "prior": {gstr(a): p for a, p in prior.items()}}
        if pe == 0:
            res["inconsistent"] = True
            res["probs"] = {}
        else:
            res["inconsistent"] = False
            res["probs"] = {gstr(a): pq[a] / pe for a in self.query_atoms}
        return res

    # ---- tags ----------------------------------------------------------------------------------------
    def _call_graph(self):
        """Top-down over-approximation of what the engine may explore: every instantiation of every
        clause over the constants (no possibly-true filtering, so 'dead' recursion such as
        p :- p. is included), restricted to atoms reachable from the queries and evidence."""
        clauses = self.prog["clauses"]
        inst = []
        by_head = {}
        for ci, cl in enumerate(clauses):
            vs = clause_vars(cl)
            for vals in product(self.consts, repeat=len(vs)):
                th = dict(zip(vs, vals))
                pos = tuple(subst_atom(at, th) for p, at in cl["body"] if p)
                neg = tuple(subst_atom(at, th) for p, at in cl["body"] if not p)
                for _p, h in cl["heads"]:
                    r = (subst_atom(h, th), pos, neg, ci)
                    inst.append(r)
                    by_head.setdefault(r[0], []).append(r)
        roots = []
        for q in self.prog.get("queries", []):
            pat = (q[0], tuple(q[1]))
            vs = [a for a in pat[1] if is_var(a)]
            uniq = []
            for v in vs:
                if v not in uniq:
                    uniq.append(v)
            for vals in product(self.consts, repeat=len(uniq)):
                roots.append(subst_atom(q, dict(zip(uniq, vals))))
        roots += [a for a, _v in self.evidence_atoms]
        need = set(roots)
        todo = list(roots)
        while todo:
            a = todo.pop()
            for r in by_head.get(a, []):
                for b in r[1] + r[2]:
                    if b not in need:
                        need.add(b)
                        todo.append(b)
        return [r for r in inst if r[0] in need], need

    def tags(self):
        prog = self.prog
        tags = set()
        rules, need = self._call_graph()
        nodes = sorted(need)
        pos_edges = {a: set() for a in nodes}
        all_edges = {a: set() for a in nodes}
        for h, pos, neg, _ci in rules:
            for b in pos:
                pos_edges[h].add(b)
                all_edges[h].add(b)
            for b in neg:
                all_edges[h].add(b)
        comp = scc(nodes, pos_edges)
        on_cycle = set()
        for c in comp:
            if len(c) > 1 or (c[0] in pos_edges[c[0]]):
                on_cycle.update(c)
                if len(set(a[0] for a in c)) > 1:
                    tags.add("mutual_recursion")
        if on_cycle:
            tags.add("has_pos_cycle")
        # atoms that reach a positive cycle through any edges (or are on one)
        reach = set(on_cycle)
        changed = True
        while changed:
            changed = False
            for a in nodes:
                if a not in reach and any(b in reach for b in all_edges[a]):
                    reach.add(a)
                    changed = True
        # atoms reachable from a positive cycle through any edges (or on one)
        below = set(on_cycle)
        todo = list(on_cycle)
        while todo:
            a = todo.pop()
            for b in all_edges[a]:
                if b not in below:
                    below.add(b)
                    todo.append(b)
        compid = {}
        for k, c in enumerate(comp):
            for a in c:
                compid[a] = k
        for h, pos, neg, ci in rules:
            if neg and h in on_cycle and any(b in on_cycle and compid[b] == compid[h] for b in pos):
                # a rule that is itself an edge of a positive cycle and also carries a negative literal
                tags.add("neg_sibling_on_cycle")
            for b in neg:
                if b in reach:
                    tags.add("neg_over_recursive")
                    if h in below:
                        # a negation that sits below an (outer) positive cycle and leads to another cycle
                        tags.add("nested_cycle_under_negation")
            if set(pos) & set(neg):
                tags.add("contradictory_body")
            cl = prog["clauses"][ci]
            if len(cl["heads"]) > 1 and cl["body"]:
                tags.add("ad_with_body")
            if len(cl["heads"]) > 1:
                tags.add("ad")
        for cl in prog["clauses"]:
            hp = set(h[1][0] for h in cl["heads"])
            for pos, at in cl["body"]:
                if pos and any(is_var(a) for a in at[1]) and at[0] in hp:
                    tags.add("nonground_recursive_call")
        derived = set(r[0] for r in rules if r[1] or r[2])
        for a, _v in self.evidence_atoms:
            if a in derived:
                tags.add("evidence_on_derived")
        if self.evidence_atoms:
            tags.add("evidence")
        for q in prog.get("queries", []):
            if any(is_var(a) for a in q[1]):
                tags.add("nonground_query")
        seen = set()
        for cl in prog["clauses"]:
            if not cl["body"] and len(cl["heads"]) == 1:
                key = (cl["heads"][0][1][0], tuple(cl["heads"][0][1][1]))
                if key in seen:
                    tags.add("duplicate_fact")
                seen.add(key)
        if any(r[2] for r in rules):
            tags.add("negation")
        return sorted(tags)


def scc(nodes, edges):
    """Tarjan, iterative. Returns list of components (lists)."""
    index = {}
    low = {}
    onst = set()
    st = []
    out = []
    counter = [0]
    for root in nodes:
        if root in index:
            continue
        work = [(root, iter(sorted(edges[root])))]
        index[root] = low[root] = counter[0]
        counter[0] += 1
        st.append(root)
        onst.add(root)
        while work:
            v, it = work[-1]
            advanced = False
            for w in it:
                if w not in index:
                    index[w] = low[w] = counter[0]
                    counter[0] += 1
                    st.append(w)
                    onst.add(w)
                    work.append((w, iter(sorted(edges[w]))))
                    advanced = True
                    break
                elif w in onst:
                    low[v] = min(low[v], index[w])
            if advanced:
                continue
            work.pop()
            if work:
                u = work[-1][0]
                low[u] = min(low[u], low[v])
            if low[v] == index[v]:
                c = []
                while True:
                    w = st.pop()
                    onst.discard(w)
                    c.append(w)
                    if w == v:
                        break
                out.append(c)
    return out
