#!/venv/bin/python
"""Self-test of the reference model: generated programs, reference enumerator vs real default pipeline.
Not a property check (C01 is not claimed); used to validate generator + reference before they serve as oracles."""
import os, sys, time, collections
sys.path.insert(0, os.path.dirname(os.path.dirname(os.path.abspath(__file__))))
sys.path.insert(0, "/repo")
from sim.seeds import stream
from sim import gen, ref, pipeline

def main(n=300, seed=0, verbose=True):
    cnt = collections.Counter()
    t0 = time.time()
    examples = {}
    for i in range(n):
        rng = stream(seed, "refcheck", i)
        prog = gen.gen_program(rng)
        text = gen.program_text(prog)
        try:
            R = ref.Ref(prog)
            sol = R.solve()
        except ref.TooBig as e:
            cnt["toobig"] += 1
            continue
        o = pipeline.run_pipeline(text, budget=200000)
        tags = R.tags()
        if sol["three_valued"]:
            cnt["three_valued"] += 1
        if o["kind"] == "ok":
            if sol["inconsistent"]:
                cat = "ref-inconsistent/problog-ok"
            else:
                bad = None
                for k, v in o["results"].items():
                    want = float(sol["probs"].get(k.replace(" ", ""), 0))
                    if abs(v - want) > 1e-7:
                        bad = (k, v, want)
                for k, v in sol["probs"].items():
                    if v > 0 and k not in set(x.replace(" ", "") for x in o["results"]):
                        bad = (k, None, float(v))
                cat = "agree" if bad is None else "PROB-MISMATCH"
                if bad:
                    examples.setdefault(cat, []).append((text, bad, tags))
        else:
            cat = pipeline.kind_tag(o)
            if cat == "err:InconsistentEvidenceError" and sol["inconsistent"]:
                cat = "agree-inconsistent"
            else:
                examples.setdefault(cat, []).append((text, o.get("site"), tags))
        cnt[cat] += 1
    print("n=%d %.1fs" % (n, time.time() - t0), dict(cnt))
    if verbose:
        for cat, ex in examples.items():
            print("=====", cat, len(ex))
            for text, info, tags in ex[:2]:
                print(text); print(info); print(tags); print("--")

if __name__ == "__main__":
    main(int(sys.argv[1]) if len(sys.argv) > 1 else 300, int(sys.argv[2]) if len(sys.argv) > 2 else 0)
