#!/venv/bin/python
"""Search random-order seeds on one corpus file for a given C04 signature and write a replay doc (triage helper)."""
import sys, json, os
sys.path.insert(0, "/verif"); sys.path.insert(0, "/repo")
os.environ.setdefault("ML_KULEUVEN_PROBLOG_VERIF", "1")
import checks.c04 as c04, checks.c03 as c03
from sim.seeds import sub
path, want, out = sys.argv[1], sys.argv[2], sys.argv[3]
text = open(path).read()
name = os.path.relpath(path, "/repo") if path.startswith("/repo") else os.path.relpath(path, "/verif")
sort_lists = any(w in text for w in c03.LISTY)
for s in range(400):
    sig, sigt, log, base, o = c04.pair_signature(text, "R", sub(s, "fw"), c03.file_model(path), sort_lists, evaluator="fast")
    if sig == want:
        v = c04.build_violation(sig, sigt, base, "R", log, text, ["corpus"], None, c03.file_model(path), sort_lists, name)
        doc = dict(v["replay"]); doc.update(property="C04", expected_signature=v["signature"], summary=v["summary"], match=v["match"])
        json.dump(doc, open(out, "w"), indent=1, sort_keys=True)
        print("found at seed", s, v["match"]["msg"], len(doc["script"]))
        break
else:
    print("not found")
