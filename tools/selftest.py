#!/venv/bin/python
"""Determinism self-test: every check is run three times on a reduced workload (same VERIF_SEED) -
16 workers / PYTHONHASHSEED=0, 3 workers / PYTHONHASHSEED=0, 16 workers / PYTHONHASHSEED=12345 in fresh
interpreters - and the digests of the merged results (all counters, trace digests, non-trivial case
digests, violation signatures) must be identical.
usage: tools/selftest.py [--scale 0.1] [--seeds 0,1] [ID ...]"""
import os, subprocess, sys
V = os.path.dirname(os.path.dirname(os.path.abspath(__file__)))
args = sys.argv[1:]
scale, seeds = "0.1", ["0"]
ids = []
i = 0
while i < len(args):
    if args[i] == "--scale":
        scale = args[i + 1]; i += 2
    elif args[i] == "--seeds":
        seeds = args[i + 1].split(","); i += 2
    else:
        ids.append(args[i]); i += 1
ids = ids or ["C34", "C11", "C03", "C04", "C08", "C29", "C23", "C22", "C24"]
bad = 0
for pid in ids:
    for seed in seeds:
        digs = []
        for workers, hs in (("16", "0"), ("3", "0"), ("16", "12345")):
            env = dict(os.environ, VERIF_SEED=seed, VERIF_WORKERS=workers, VERIF_HASHSEED=hs)
            env.pop("VERIF_CHILD", None)
            out = subprocess.run([os.path.join(V, "check"), pid, "--tier", "quick", "--digest-only", "--no-evidence", "--scale", scale],
                                 env=env, cwd=V, capture_output=True, text=True, timeout=3000)
            d = [l for l in out.stdout.splitlines() if l.startswith("DIGEST")]
            digs.append(d[0] if d else "NO-DIGEST rc=%d %s" % (out.returncode, out.stdout[-300:]))
        ok = len(set(digs)) == 1 and digs[0].startswith("DIGEST")
        print("%s seed=%s %s %s" % (pid, seed, "deterministic" if ok else "NONDETERMINISTIC", digs if not ok else digs[0]))
        sys.stdout.flush()
        bad += 0 if ok else 1
sys.exit(1 if bad else 0)
