#!/venv/bin/python
"""setup_cmd helper: verifies the toolchain the checks need is importable (offline)."""
import sys
sys.path.insert(0, "/repo")
import problog  # noqa
print("setup ok: problog from", problog.__file__)
