#!/venv/bin/python
"""Confirm a seeded breaking change in a scratch worktree, run the checks against it in /repo (apply, check, undo),
and file it under /verif/seeded/<name>/.
usage: tools/seeded.py SRC_DIR NAME PROPERTY [extra check ids...] [--seed N] [--skip-confirm]"""
import json, os, shutil, subprocess, sys
V = os.path.dirname(os.path.dirname(os.path.abspath(__file__)))
args = sys.argv[1:]
src, name, prop = os.path.abspath(args[0]), args[1], args[2]
extra, seed, skip = [], "0", False
i = 3
while i < len(args):
    if args[i] == "--seed":
        seed = args[i + 1]; i += 2
    elif args[i] == "--skip-confirm":
        skip = True; i += 1
    else:
        extra.append(args[i]); i += 1
patch = os.path.join(src, "patch.diff")
demo = os.path.join(src, "demo.py")
meta = {"property": prop, "name": name}
def sh(cmd, **kw):
    return subprocess.run(cmd, capture_output=True, text=True, **kw)
if not skip:
    wt = "/tmp/wt_confirm_%d" % os.getpid()
    sh(["git", "-C", "/repo", "worktree", "add", "-q", wt, "HEAD"])
    try:
        env = dict(os.environ, PYTHONPATH=wt)
        env.pop("ML_KULEUVEN_PROBLOG_VERIF", None)
        r0 = sh(["/venv/bin/python", demo], cwd=wt, env=env, timeout=900)
        a = sh(["git", "-C", wt, "apply", patch])
        r1 = sh(["/venv/bin/python", demo], cwd=wt, env=env, timeout=900)
        t = sh(["/venv/bin/python", "-m", "pytest", "-q", "-p", "no:cacheprovider", "-n", "8", "--timeout=900"], cwd=wt, env=env, timeout=1800)
        tail = [l for l in t.stdout.splitlines() if "passed" in l or "failed" in l][-1:] 
        meta["confirmed"] = {"demo_without_patch_rc": r0.returncode, "patch_applies": a.returncode == 0, "demo_with_patch_rc": r1.returncode,
                             "test_suite_with_patch": tail[0] if tail else t.stdout[-200:]}
    finally:
        sh(["git", "-C", "/repo", "worktree", "remove", "--force", wt])
    ok = meta["confirmed"]["demo_without_patch_rc"] == 0 and meta["confirmed"]["demo_with_patch_rc"] != 0 and \
        meta["confirmed"]["patch_applies"] and "273 passed" in meta["confirmed"]["test_suite_with_patch"] and "failed" not in meta["confirmed"]["test_suite_with_patch"]
    meta["kept"] = ok
    print("confirm:", json.dumps(meta["confirmed"]))
    if not ok:
        print("NOT KEPT")
        sys.exit(1)
r = sh([os.path.join(V, "tools", "trypatch.py"), patch, prop] + extra + ["--seed", seed], timeout=7200)
try:
    res = json.loads(r.stdout)
except Exception:
    res = {"error": r.stdout[-500:] + r.stderr[-500:]}
meta["checks"] = {k: {"rc": v.get("rc"), "detected": v.get("rc") == 1, "violations": v.get("violations", [])[:4], "harness": v.get("harness", [])[:2]} for k, v in res.items()} if "error" not in res else res
dst = os.path.join(V, "seeded", name)
os.makedirs(dst, exist_ok=True)
shutil.copy(patch, os.path.join(dst, "patch.diff"))
shutil.copy(demo, os.path.join(dst, "demo.py"))
if os.path.exists(os.path.join(src, "notes.md")):
    shutil.copy(os.path.join(src, "notes.md"), os.path.join(dst, "notes.md"))
    meta["needs"] = open(os.path.join(src, "notes.md")).read()[:1500]
meta["ran"] = "tools/seeded.py: demo without/with patch + test suite in a scratch worktree; then git -C /repo apply patch; ./check %s --tier quick (VERIF_SEED=%s); git -C /repo checkout -- ." % (" ".join([prop] + extra), seed)
json.dump(meta, open(os.path.join(dst, "meta.json"), "w"), indent=1)
print(json.dumps(meta["checks"], indent=1)[:1500])
