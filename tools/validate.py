#!/usr/bin/env python3
"""Validates MANIFEST.json and evidence/*.json against the schemas in /root/.vp (run with python3-vt)."""
import glob, json, sys
import jsonschema
bad = 0
man = json.load(open("/verif/MANIFEST.json"))
jsonschema.validate(man, json.load(open("/root/.vp/MANIFEST.schema.json")))
print("MANIFEST ok:", len(man["checks"]), "checks")
sch = json.load(open("/root/.vp/EVIDENCE.schema.json"))
for c in man["checks"]:
    p = c["evidence_file"]
    try:
        d = json.load(open(p))
        jsonschema.validate(d, sch)
        cov = d["coverage"]
        print("%s ok tier=%s evaluations=%d distinct_nontrivial=%d wall=%.0fs violations=%s" % (c["property_id"], d["tier"], cov["evaluations"], cov["distinct_nontrivial"], d["wall_s"], d.get("violations")))
    except Exception as e:
        bad += 1
        print("%s INVALID: %s" % (c["property_id"], str(e)[:200]))
sys.exit(1 if bad else 0)
