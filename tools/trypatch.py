#!/venv/bin/python
"""Apply a patch to /repo, run the quick checks of the given properties, undo the patch. Never commits.
usage: tools/trypatch.py PATCH ID [ID ...] [--seed N] [--scale X]"""
import json, os, subprocess, sys
V = os.path.dirname(os.path.dirname(os.path.abspath(__file__)))
args = sys.argv[1:]
patch = os.path.abspath(args[0])
ids, seed, scale = [], "0", "1.0"
i = 1
while i < len(args):
    if args[i] == "--seed":
        seed = args[i + 1]; i += 2
    elif args[i] == "--scale":
        scale = args[i + 1]; i += 2
    else:
        ids.append(args[i]); i += 1
USE_WT = os.environ.get("TRYPATCH_WORKTREE") == "1"  # apply in a scratch worktree and point the checks at it (VERIF_REPO): safe next to other runs
TREE = "/repo"
if USE_WT:
    TREE = "/tmp/wt_try_%d" % os.getpid()
    subprocess.run(["git", "-C", "/repo", "worktree", "add", "-q", TREE, "HEAD"], check=True)
else:
    st = subprocess.run(["git", "-C", "/repo", "status", "--porcelain", "--untracked-files=no"], capture_output=True, text=True).stdout.strip()
    if st:
        sys.exit("refusing: /repo has local changes:\n" + st)
r = subprocess.run(["git", "-C", TREE, "apply", patch], capture_output=True, text=True)
if r.returncode:
    if USE_WT:
        subprocess.run(["git", "-C", "/repo", "worktree", "remove", "--force", TREE])
    sys.exit("patch does not apply: " + r.stderr)
res = {}
try:
    for pid in ids:
        env = dict(os.environ, VERIF_SEED=seed)
        if USE_WT:
            env["VERIF_REPO"] = TREE
        env.pop("VERIF_CHILD", None)
        out = subprocess.run([os.path.join(V, "check"), pid, "--tier", "quick", "--no-evidence", "--scale", scale], env=env, cwd=V,
                             capture_output=True, text=True, timeout=3000)
        viol = [l[:260] for l in out.stdout.splitlines() if l.startswith("VIOLATION")]
        harn = [l[:200] for l in out.stdout.splitlines() if l.startswith("HARNESS")]
        res[pid] = {"rc": out.returncode, "violations": viol, "harness": harn,
                    "summary": [l for l in out.stdout.splitlines() if l.startswith("SUMMARY")]}
finally:
    if USE_WT:
        subprocess.run(["git", "-C", "/repo", "worktree", "remove", "--force", TREE])
    else:
        subprocess.run(["git", "-C", "/repo", "checkout", "--", "."], check=True)
print(json.dumps(res, indent=1))
