#!/venv/bin/python
"""Group the replay files of a property by (faulty outcome, call site) and print one sample per group."""
import glob, json, sys, collections
prop = sys.argv[1]
groups = collections.defaultdict(list)
for f in sorted(glob.glob("/verif/replays/%s/*.json" % prop)):
    d = json.load(open(f))
    fa = d.get("faulty") or d.get("permuted") or {}
    key = (d.get("expected_signature", "").split(":", 1)[-1] if prop == "C04" else d.get("expected_signature"), tuple(fa.get("site") or []))
    groups[key].append((f, d))
for key, items in groups.items():
    print("=" * 100)
    print("SIG", key[0], " n=%d" % len(items), [d.get("mode") for f, d in items])
    for s in key[1]:
        print("   site:", s)
    f, d = min(items, key=lambda x: len(x[1].get("program_text") or "x" * 10000))
    print("file:", f)
    print(d.get("program_text") or d.get("file"))
    print("mode", d.get("mode"), "script", str(d.get("script"))[:100], "tags", d.get("tags"))
    print("default:", json.dumps(d.get("default"))[:300])
    print("faulty:", json.dumps({k: v for k, v in (d.get("faulty") or {}).items() if k != "site"})[:300])
