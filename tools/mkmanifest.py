#!/venv/bin/python
"""Regenerates /verif/MANIFEST.json from the table below (single source of truth) and validates it."""
import json, os, subprocess, sys
V = os.path.dirname(os.path.dirname(os.path.abspath(__file__)))

LEVEL_NOTE = ("Seeded search, not proof: a clean batch is evidence for the runs explored only. Trusted base: CPython, "
              "the harness in /verif/sim (seed derivation, scheduler, virtual alarm, PRNG seam, reference models), and for "
              "engine checks the external dsharp/maxsatz binaries shipped with the repository, which run as real code.")

CLAIMED = {
 "C24": dict(
    technique="deterministic simulation: PRNG seam of the parameter initialisation (seeded, adversarial values) and simulator-stepped EM iterations with per-step invariants; datasets sampled from an independent reference enumerator",
    text="Narrow claim. The learner is stepped by the simulator (prepare(), then step() up to 12 times) instead of run(), with the module-level PRNG that initialises t(_) parameters "
         "owned and seeded by the simulator (several initialisations per case, one with adversarial draws near 0 and 1). After every step: reported log-likelihood not below the "
         "previous one, every weight a probability, every annotated disjunction summing to at most 1 (its fixed heads, read from the program text, included when the configuration normalises); on fully observed identifiable data the first step must give the relative "
         "frequencies. Template programs with tunable facts, tunable ADs with/without bodies and one or two (equal) fixed heads, hidden and observed atoms; complete and partial datasets sampled from "
         "a reference parameterisation. The unchanged tree violates several clauses on programs with multi-head ADs (known findings F10, F24-F27); fact-only programs and every "
         "unlisted crash site stay fully checked. Exploration level.",
    design_ref="DESIGN.md §5 C24", quick_t=1800, thorough_t=5400),
 "C22": dict(
    technique="deterministic simulation: PRNG seam with recording uniform draws (seeded, adversarial values), engine reuse history, virtual alarm inside sample()/estimate(); oracle = independent possible-world enumerator + Hoeffding bound",
    text="Inside problog.tasks.sample the PRNG is the simulator's: every uniform draw records the comparison made with it, so sequential annotated-disjunction sampling is checked "
         "draw by draw (threshold p_i/(1-rejected mass)), the printed probability must equal the product of the recorded outcomes, every accepted sample must be a positive-probability "
         "world satisfying the evidence and every rejected attempt must violate it (all ground atoms of the cone are queried, so a sample fixes a world; the printed probability "
         "is judged with propagate_evidence=False only), programs with continuous facts must be internally consistent, an attempt replayed on a fresh "
         "engine from the captured PRNG state must be identical (engine reuse leaks nothing), frequencies and estimate() must lie within the Hoeffding radius (false alarm < 1e-9 per query) "
         "of the exact conditional probability, and samples yielded before a virtual-alarm interrupt must still be valid. Both propagate_evidence settings. Exploration level.",
    design_ref="DESIGN.md §5 C22", quick_t=1800, thorough_t=5400),
 "C23": dict(
    technique="deterministic simulation: virtual alarm (line-count clock via sys.settrace) interrupting the anytime k-best evaluator at seeded simulated times; oracle = independent possible-world enumerator",
    text="The interval answer of the k-best evaluator exists only under interruption, so a simulated clock (count of source lines executed in problog/) raises the same "
         "KeyboardInterrupt that util.start_timer's SIGALRM would, at seeded times drawn uniformly over the run and biased to just after Border.update / solver calls / "
         "blocking-clause insertion. Every returned value or interval is judged against exact probabilities from a reference enumerator that shares no code with ProbLog; "
         "plus per program a fault-free run (must be tight) and an explain run (per-query proof probabilities must sum to the exact probability). Real maxsatz runs. Exploration level.",
    design_ref="DESIGN.md §5 C23", quick_t=1800, thorough_t=5400),
 "C11": dict(
    technique="deterministic simulation: seeded histories of builder calls vs symbolic model with late-bound cells, truth tables after every call, invalid-call faults, ddmin replay",
    text="Seeded histories of LogicFormula builder calls (add_atom incl. deterministic and AD-group atoms, add_and, add_or readonly/mutable, add_disjunct incl. positive "
         "cycles, negate/add_not, add_name) under swarm-chosen options (auto_compact, keep_order, keep_duplicates, keep_all, avoid_name_clash, max_arity). Every key ever "
         "returned is re-checked after every call: its truth table over all assignments of <= 4 atoms (alternating fixpoint for cyclic nodes) must equal that of the model "
         "expression; invalid updates must raise ValueError and change nothing. Exploration level (bounded atoms and history length, sampled histories).",
    design_ref="DESIGN.md §5 C11", quick_t=1200, thorough_t=5400),
 "C29": dict(
    technique="deterministic simulation: seeded histories on a tree of ClauseDB extensions (extend / add / query), from-scratch refinement oracle, failing and alarm-interrupted adds as faults, ddmin replay",
    text="A generated program is split into a prepared base and extra clauses; seeded histories extend the base (also extensions of extensions), add the extra clauses "
         "to leaves (new predicates, predicates defined or only called in ancestors, probabilistic clauses and annotated disjunctions) and query every database of the tree "
         "through reused engines; each answer is compared with a database prepared from scratch from the clauses on that database's root path, so both equivalence with "
         "the union and isolation of the parent are decided. Faults: adds that raise and adds/queries interrupted by the virtual alarm (that child is discarded). Exploration level.",
    design_ref="DESIGN.md §5 C29", quick_t=1500, thorough_t=5400),
 "C08": dict(
    technique="deterministic simulation: seeded histories of ground/query/ground_all on shared database, targets and engines; fresh-run refinement oracle; failing and alarm-interrupted queries as faults; ddmin replay",
    text="Seeded operation histories (ground query / ground evidence / engine.query / ground_all / new target / new engine) run against one shared prepared ClauseDB, "
         "up to three targets with their tabling caches and up to three engines; after every operation the touched target is evaluated and compared query by query with "
         "fresh single-query runs under the same evidence. Queries include non-ground calls, all/findall and subquery helpers and compound-term wrappers whose answers carry a variable inside a term. A separate fault configuration injects queries that raise after doing real work and groundings interrupted by the "
         "virtual alarm (line-count clock); the model then discards that engine and target while the database stays shared. Exploration level.",
    design_ref="DESIGN.md §5 C08", quick_t=1500, thorough_t=5400),
 "C04": dict(
    technique="deterministic simulation: documented unbuffered / rc-first / seeded random-order message queues (existing init_message_stack seam), differential oracle vs default engine, scripted replay",
    text="Each program is evaluated by the real pipeline with StackBasedEngine(unbuffered=True), (unbuffered=True, rc_first=True) and the RandomOrderEngine "
         "of docs/source/engine.rst whose random.randint is the simulator's seeded, recorded and replayable choice source; outcome (instances, probabilities, "
         "accept/reject) must equal the default engine's. The unchanged tree violates this property in open-ended ways on programs with positive cycles "
         "(known findings F3-F5, F15-F17 by call site / side / tags / corpus file, plus class-level entries F5-class and F17-class); those are bounded by aggregate "
         "oracles over the whole run (share of cyclic programs on which a mode fails: limit 8 % for D/Drc, 32 % for R; share with a silent wrong answer: 1.5 %), while on "
         "programs without a positive cycle every difference is reported. Exploration level.",
    design_ref="DESIGN.md §5 C04", quick_t=1500, thorough_t=5400),
 "C03": dict(
    technique="deterministic simulation: seeded scheduler permuting the engine's sibling message batches (reorder faults), differential oracle vs identity schedule, ddmin replay",
    text="The real buffered engine is run under a simulator-owned scheduler (guarded hook in MessageFIFO) that permutes every batch of sibling "
         "'e' messages according to a seeded policy (uniform, reverse, rotate, static per node, one-shot); the canonical outcome (query instances, "
         "probabilities, error class) must equal the identity-schedule outcome of the same program. Corpus test/*.pl plus seeded generated stratified programs; "
         "violations are minimised (program and decision log) and replayed in a fresh process. Half of the programs with evidence are grounded with evidence propagation "
         "(what the `problog` command does by default). Exploration: schedules are sampled, not enumerated.",
    design_ref="DESIGN.md §5 C03", quick_t=1500, thorough_t=5400),
 "C34": dict(
    technique="deterministic simulation: seeded operation histories vs reference models, invalid-op faults, ddmin replay",
    text="Seeded histories (one integer = one history) of OrderedSet/UHeap/BitVector operations over several instances, compared "
         "op by op with list/dict/set reference models; invalid operations are the injected faults and must raise without changing state. "
         "Exploration level: a container API has a small state space per history, so tens of thousands of short swarm-configured histories reach "
         "every operator with operands of different shapes (block counts, key ties, aliasing).",
    design_ref="DESIGN.md §5 C34", quick_t=900, thorough_t=3600),
}

NA_PENDING = {}

NA = {
 "C01": "pure function of the program under the single default schedule: no schedule, clock, fault or history in the statement (input generation + semantic oracle would be property-based testing, not simulation)",
 "C02": "accept/reject is a function of the program text; its only schedule-dependent aspect (same errors under every order) is decided by C03/C04",
 "C05": "cross-product of backends x semirings on a pure function; SDD/BDD/forward backends are not installed",
 "C06": "option cross-product on a pure function; no nondeterminism or fault to simulate",
 "C07": "permutation of the input text (metamorphic testing); the simulable parts (clause exploration order, query/evidence order) are decided by C03 and C08",
 "C09": "translation validation of deterministic transformations of a ground program; no schedule, time or fault",
 "C10": "translation validation of the compiled circuit; failures of dsharp or its temp files are not in the statement",
 "C12": "algebraic laws of numeric functions; pure",
 "C13": "pure function of the program; the stated oracle (SWI-Prolog) is not in the sandbox",
 "C14": "pure function of two terms",
 "C15": "pure function of terms",
 "C16": "pure function of terms/numbers",
 "C17": "input-space fuzzing of the parser; no fault, schedule or history",
 "C18": "pure function of terms",
 "C19": "pure function of the program under the default schedule",
 "C20": "deterministic optimisation over a ground program; solver failures are not in the statement",
 "C21": "deterministic search (search_local has no randomness); pure function of the program",
 "C25": "export then re-import: pure function",
 "C26": "pure function of the program under the default schedule",
 "C27": "input fuzzing of error paths; no fault in the statement",
 "C28": "pure function of values",
 "C30": "pure function of the program text",
 "C31": "pure function of the program",
 "C32": "the randomness is the program's own probabilistic facts, not a PRNG; pure function of the program",
 "C33": "pure function of the program",
}

def main():
    pending = json.load(open(os.path.join(V, "tools", "pending.json"))) if os.path.exists(os.path.join(V, "tools", "pending.json")) else {}
    checks = []
    for pid in sorted(CLAIMED):
        c = CLAIMED[pid]
        checks.append({
            "property_id": pid,
            "quick_cmd": "timeout %d ./check %s --tier quick" % (c["quick_t"], pid),
            "thorough_cmd": "timeout %d ./check %s --tier thorough" % (c["thorough_t"], pid),
            "evidence_file": "/verif/evidence/%s.json" % pid,
            "replay_cmd_template": "./check %s --replay {path}" % pid,
            "engine": "sim",
            "level_claimed": {"category": "exploration", "text": c["text"], "design_ref": c["design_ref"]},
            "level_note": LEVEL_NOTE,
            "technique": c["technique"],
        })
    na = [{"property_id": k, "reason": v} for k, v in sorted({**NA, **pending}.items()) if k not in CLAIMED]
    doc = {
        "version": 1,
        "setup_cmd": "/venv/bin/python -c 'import hypothesis' 2>/dev/null || /venv/bin/pip install -q --no-index --find-links /opt/veriftools/wheels hypothesis; /venv/bin/python tools/selfcheck.py",
        "hooks": {
            "guard": "ML_KULEUVEN_PROBLOG_VERIF",
            "enable": "environment variable ML_KULEUVEN_PROBLOG_VERIF=1 set by ./check before importing problog from /repo's working tree (nothing is compiled)",
            "baseline_off_cmd": "cd /repo && env -u ML_KULEUVEN_PROBLOG_VERIF /venv/bin/python -m pytest -ra -q -p no:cacheprovider --timeout=900 --continue-on-collection-errors",
            "source_commits": json.load(open(os.path.join(V, "tools", "hook_commits.json"))) if os.path.exists(os.path.join(V, "tools", "hook_commits.json")) else [],
            "add_only": True,
        },
        "engines": [{"name": "sim", "path": "/verif/sim", "serves_properties": sorted(CLAIMED),
                     "kind_free_text": "deterministic simulator: seeded scheduler for the engine's message queue, virtual line-count alarm, PRNG seam, history generators, reference models, ddmin minimiser, replay files"}],
        "checks": checks,
        "not_applicable": na,
        "notes": "See DESIGN.md. Exit 0 = held (KNOWN-FINDING lines list recorded defects), 1 = VIOLATION, 2 = HARNESS-ERROR. VERIF_SEED and VERIF_TIER are honoured.",
    }
    with open(os.path.join(V, "MANIFEST.json"), "w") as f:
        json.dump(doc, f, indent=1)
    try:
        import jsonschema
        jsonschema.validate(doc, json.load(open("/root/.vp/MANIFEST.schema.json")))
        print("MANIFEST valid;", len(checks), "checks,", len(na), "not applicable")
    except ImportError:
        print("jsonschema missing; not validated")

if __name__ == "__main__":
    main()
