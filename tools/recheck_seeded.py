#!/venv/bin/python
"""Re-run every kept seeded change against the current checks (scratch worktree + VERIF_REPO, /repo untouched) and record the result
in its meta.json under "recheck". usage: tools/recheck_seeded.py [name ...]"""
import glob, json, os, subprocess, sys
V = os.path.dirname(os.path.dirname(os.path.abspath(__file__)))
names = sys.argv[1:] or sorted(os.path.basename(d) for d in glob.glob(os.path.join(V, "seeded", "*")))
head = subprocess.check_output(["git", "-C", "/repo", "rev-parse", "--short", "HEAD"]).decode().strip()
for name in names:
    d = os.path.join(V, "seeded", name)
    meta = json.load(open(os.path.join(d, "meta.json")))
    prop = meta["property"]
    env = dict(os.environ, TRYPATCH_WORKTREE="1")
    r = subprocess.run([os.path.join(V, "tools", "trypatch.py"), os.path.join(d, "patch.diff"), prop], env=env, capture_output=True, text=True, timeout=7200)
    try:
        res = json.loads(r.stdout)[prop]
        rec = {"repo_head": head, "detected": res["rc"] == 1, "rc": res["rc"], "violations": res["violations"][:3], "harness": res["harness"][:2]}
    except Exception:
        rec = {"repo_head": head, "error": (r.stdout + r.stderr)[-400:]}
    meta["recheck"] = rec
    json.dump(meta, open(os.path.join(d, "meta.json"), "w"), indent=1)
    print(name, "DETECTED" if rec.get("detected") else ("ERROR " + rec.get("error", "")[:120] if "error" in rec else "missed rc=%s" % rec.get("rc")),
          "; ".join(v.split("sig=")[1].split(" ::")[0] for v in rec.get("violations", []) if "sig=" in v)[:140])
    sys.stdout.flush()
