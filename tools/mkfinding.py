#!/venv/bin/python
"""Adds an open finding to known_findings.json from replay files.
usage: mkfinding.py ID PROPS(comma) KEYS(comma, taken from the first replay's match dict) [--tags t1,t2] [--set k=v ...] --what TEXT -- replay.json...
Used by hand during triage only; the checks never write this file."""
import json, os, shutil, sys
V = os.path.dirname(os.path.dirname(os.path.abspath(__file__)))
a = sys.argv[1:]
fid, props, keys = a[0], a[1].split(","), [k for k in a[2].split(",") if k]
tags, what, sets = None, "", {}
i = 3
while a[i] != "--":
    if a[i] == "--tags":
        tags = a[i + 1].split(","); i += 2
    elif a[i] == "--what":
        what = a[i + 1]; i += 2
    elif a[i] == "--set":
        k, v = a[i + 1].split("=", 1); sets[k] = json.loads(v); i += 2
    else:
        raise SystemExit("bad arg " + a[i])
files = a[i + 1:]
wit = []
first = None
for n, f in enumerate(files):
    d = json.load(open(f))
    first = first or d
    dst = "findings/%s-%d.json" % (fid, n + 1)
    shutil.copy(f, os.path.join(V, dst))
    wit.append(dst)
sig = {k: first["match"][k] for k in keys}
sig.update(sets)
if tags:
    sig["requires_tags"] = tags
path = os.path.join(V, "known_findings.json")
doc = json.load(open(path))
doc["findings"] = [e for e in doc["findings"] if e["id"] != fid]
doc["findings"].append({"id": fid, "properties": props, "status": "open", "what": what, "witnesses": wit, "signature": sig})
json.dump(doc, open(path, "w"), indent=1)
print(fid, sig)
