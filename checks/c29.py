"""C29 — extending a prepared database is equivalent to preparing the union.

History simulation on a tree of ClauseDB objects: a prepared base database, `extend()` children (and
children of children), clauses added to leaves (facts, rules, probabilistic facts, annotated
disjunctions; for predicates new to the child, defined in an ancestor, or only called there),
interleaved with queries on any database of the tree through fresh or reused engines. Oracle: the
same query on a database prepared from scratch from the clause list on that database's root path.
Faults: an add that raises (reserved name / built-in) and adds or queries interrupted by the
virtual alarm: the model discards that child; every other database must be unaffected.
"""
from problog.engine import DefaultEngine
from problog.formula import LogicFormula
from problog.logic import Term
from problog.program import PrologString

from sim import gen
from sim import pipeline as PL
from sim import diffcheck as DC
from sim.alarm import Alarm
from sim.cases import make_case
from sim.minimize import ddmin
from sim.seeds import sub, stream, digest
from checks import c08 as C08

ID = "C29"
WALL_S = {"quick": 300, "thorough": 3300}

META = {
    "rule": "one case = (generated program split into a base part and extra clauses, seeded history of 4-14 operations on a tree of databases: "
            "extend / add clause to a leaf / query any database). Every query is compared with the same query on a database prepared from scratch "
            "from the clauses on that database's root path. non-trivial = at least one clause was added to an extension and at least two queries "
            "ran after it (on that extension or one of its ancestors); distinct = new (program digest, op-list digest)",
    "trace_measure": "digest of the sequence of (op, database, outcome kind) of the history",
    "components": {"real": ["ClauseDB.extend / add_clause / add_fact / _add_head / _compile", "ClauseIndex", "engine.ground on parent and child databases",
                            "LogicFormula", "d-DNNF pipeline (fraction) / in-process evaluator"],
                   "stub": [], "simulated": ["history generator", "failing add (reserved name, built-in)", "virtual alarm interrupting an add or a query on a child"]},
    "assumptions": [
        "clauses are only added to databases that have no extension yet (the statement is about adding to an extension, not about changing a parent afterwards)",
        "after a failed or interrupted operation on a child that child is discarded; its ancestors and siblings stay in use",
    ],
}

LIB_TEXTS = [":- use_module(library(lists)).", "zzsum(S) :- sum_list([1,2,3], S)."]
LIB_QUERY = ["zzsum", ["S"]]
BAD_CLAUSES = ["choice(a,b,c).", "length(a,b).", "true.", "body_1(a).", "call(a)."]


def split_program(prog, rng):
    clauses = list(prog["clauses"])
    idx = list(range(len(clauses)))
    rng.shuffle(idx)
    nbase = rng.randint(max(1, len(clauses) // 3), max(1, len(clauses) - 1))
    base = sorted(idx[:nbase])
    extra = idx[nbase:]
    # every predicate called in the base should be defined there (otherwise most queries just raise UnknownClause)
    changed = True
    while changed:
        changed = False
        defined = set(h[1][0] for i in base for h in clauses[i]["heads"])
        called = set(l[1][0] for i in base for l in clauses[i]["body"])
        for pn in sorted(called - defined):
            for i in list(extra):
                if any(h[1][0] == pn for h in clauses[i]["heads"]):
                    extra.remove(i)
                    base.append(i)
                    changed = True
                    break
    return sorted(base), extra


def gen_history(rng, nextra, nq, faults):
    ops = []
    ndb = 1
    haschild = set()
    remaining = list(range(nextra))
    libbed = set()
    n = rng.randint(4, 14)
    for _ in range(n):
        r = rng.random()
        leaves = [d for d in range(ndb) if d not in haschild and d != 0]
        if faults and leaves and rng.random() < 0.12:
            d = rng.choice(leaves)
            w = rng.random()
            if w < 0.4:
                ops.append(["add_bad", d, rng.randrange(len(BAD_CLAUSES))])
            elif w < 0.7 and remaining:
                ops.append(["add_interrupted", d, rng.choice(remaining), round(rng.random(), 3)])
            else:
                ops.append(["query_interrupted", d, rng.randrange(nq), round(rng.random(), 3)])
            continue
        if leaves and rng.random() < 0.12:
            cand = [d for d in leaves if d not in libbed]
            if cand:
                d = rng.choice(cand)
                libbed.add(d)
                ops.append(["add_lib", d])
                ops.append(["query", d, -1, rng.randrange(2)])
                continue
        if (r < 0.2 or ndb == 1) and ndb < 5:
            p = rng.randrange(ndb)
            ops.append(["extend", p])
            haschild.add(p)
            ndb += 1
        elif r < 0.55 and leaves and remaining:
            d = rng.choice(leaves)
            c = remaining.pop(rng.randrange(len(remaining)))
            ops.append(["add", d, c])
        else:
            ops.append(["query", rng.randrange(ndb), rng.randrange(nq), rng.randrange(2)])
    # make sure the history ends with queries on every database
    for d in range(ndb):
        ops.append(["query", d, rng.randrange(nq), rng.randrange(2)])
    return ops


def clause_texts(prog):
    return [gen.clause_str(c) for c in prog["clauses"]]


def add_text(db, text):
    for st in PrologString(text):
        db += st


def fresh_outcome(memo, texts, q):
    key = (tuple(texts), gen.atom_str(q[:2]))
    if key not in memo:
        memo[key] = PL.run_pipeline("\n".join(texts) + "\nquery(%s).\n" % gen.atom_str(q[:2]), evaluator="fast")
    return memo[key]


def query_db(engine, db, q, real=False):
    PL.CLOCK.reset(400000)
    try:
        try:
            with PL.wall_guard(60):
                lf = engine.ground(db, C08.atom_term(q), label=LogicFormula.LABEL_QUERY)
                o = C08.evaluate_target(lf, real=real)
        except (PL.StepBudget, PL.CycleBreakBudget, PL.WallBudget):
            o = {"kind": "budget", "cls": "StepBudget", "site": []}
        except Exception as e:
            o = PL.outcome_of_exception(e)
    finally:
        PL.CLOCK.budget = None
        PL.CLOCK.cb_budget = None
    return o


def run_history(texts, base_idx, Q, ops, stats=None, real_every=0):
    memo = {}
    eng = [DefaultEngine(), DefaultEngine()]
    root = eng[0].prepare(PrologString("\n".join(texts[i] for i in base_idx) + "\n"))
    dbs = [root]
    model = [[texts[i] for i in base_idx]]
    dead = set()
    haschild = set()
    trace = []
    added_at = None
    queries_after = 0
    nq = 0
    for idx, op in enumerate(ops):
        k = op[0]
        if k == "extend":
            p = op[1] % len(dbs)
            if p in dead:
                p = 0
            dbs.append(dbs[p].extend())
            model.append(list(model[p]))
            haschild.add(p)
            trace.append("extend")
            continue
        d = op[1] % len(dbs)
        if d in dead:
            continue
        if k == "add_lib":
            if d == 0 or d in haschild:
                continue
            for t in LIB_TEXTS:
                add_text(dbs[d], t)
                model[d].append(t)
            added_at = idx if added_at is None else added_at
            trace.append("add_lib")
            continue
        if k in ("add", "add_bad", "add_interrupted"):
            if d == 0 or d in haschild:
                continue
            if k == "add":
                add_text(dbs[d], texts[op[2]])
                model[d].append(texts[op[2]])
                added_at = idx if added_at is None else added_at
                trace.append("add")
            elif k == "add_bad":
                try:
                    add_text(dbs[d], BAD_CLAUSES[op[2] % len(BAD_CLAUSES)])
                    raised = False
                except Exception:
                    raised = True
                if stats is not None:
                    stats["failing_add"] = stats.get("failing_add", 0) + (1 if raised else 0)
                if raised:
                    dead.add(d)
                else:
                    model[d].append(BAD_CLAUSES[op[2] % len(BAD_CLAUSES)])
                trace.append("add_bad:%s" % raised)
            else:
                with Alarm() as cal:
                    scratch = dbs[d].extend()
                    add_text(scratch, texts[op[2]])
                at = 1 + int(op[3] * max(cal.count - 1, 1))
                alarm = Alarm(at=at)
                try:
                    with alarm:
                        add_text(dbs[d], texts[op[2]])
                except KeyboardInterrupt:
                    pass
                if stats is not None:
                    stats["interrupt"] = stats.get("interrupt", 0) + (1 if alarm.fired else 0)
                if alarm.fired:
                    dead.add(d)
                else:
                    model[d].append(texts[op[2]])
                trace.append("add_int:%s" % alarm.fired)
            continue
        if k == "query_interrupted":
            if d == 0:
                continue
            q = Q[op[2] % len(Q)]
            with Alarm() as cal:
                try:
                    e2 = DefaultEngine()
                    e2.ground(e2.prepare(PrologString("\n".join(model[d]) + "\n")), C08.atom_term(q), label=LogicFormula.LABEL_QUERY)
                except Exception:
                    pass
            alarm = Alarm(at=1 + int(op[3] * max(cal.count - 1, 1)))
            e3 = DefaultEngine()
            PL.CLOCK.reset(400000)
            try:
                with alarm:
                    e3.ground(dbs[d], C08.atom_term(q), label=LogicFormula.LABEL_QUERY)
            except (KeyboardInterrupt, PL.StepBudget, PL.CycleBreakBudget):
                pass
            except Exception:
                pass
            finally:
                PL.CLOCK.budget = None
                PL.CLOCK.cb_budget = None
            if stats is not None:
                stats["interrupt"] = stats.get("interrupt", 0) + (1 if alarm.fired else 0)
            if alarm.fired:
                dead.add(d)
            trace.append("query_int:%s" % alarm.fired)
            continue
        if k == "query":
            q = LIB_QUERY if op[2] == -1 else Q[op[2] % len(Q)]
            e = eng[op[3] % 2]
            nq += 1
            real = bool(real_every) and nq % real_every == 0
            got = query_db(e, dbs[d], q, real=real)
            if got["kind"] != "ok":
                # an engine that raised keeps a dirty stack: never reuse it (engine reuse after an error is in no statement)
                eng[op[3] % 2] = DefaultEngine()
            exp = fresh_outcome(memo, model[d], q)
            if added_at is not None:
                queries_after += 1
            trace.append("query:%d:%s" % (d, PL.kind_tag(got)))
            if "budget" in (got["kind"], exp["kind"]):
                if stats is not None:
                    stats["budget"] = stats.get("budget", 0) + 1
                continue
            ok, why = PL.same_outcome(exp, got)
            if not ok:
                role = "root" if d == 0 else ("inner" if d in haschild else "leaf")
                kind = "prob" if why.startswith("probability") else ("instances" if why.startswith("instances") else "%s|%s@%s" % (
                    PL.kind_tag(exp), PL.kind_tag(got), DC.short_site(got if got["kind"] != "ok" else exp)))
                raise C08.Violation("query_%s:%s" % (role, kind),
                                    "query %s on database %d (%s, %d clauses): from scratch %s, extension %s: %s" % (
                                        gen.atom_str(q[:2]), d, role, len(model[d]), PL.kind_tag(exp), PL.kind_tag(got), why),
                                    dict(C08.sides(exp, got), zero_prob_only=C08.zero_prob_only(exp, got), role=role))
    return (added_at is not None and queries_after >= 2), digest(trace)


def run_case(texts, base_idx, Q, ops, stats=None, real_every=0):
    try:
        nt, trace = run_history(texts, base_idx, Q, ops, stats, real_every)
        return None, nt, trace
    except C08.Violation as v:
        return v, False, None


def build(texts, base_idx, Q, ops, v, tags):
    sig = v.sig

    def fails(o):
        vv, _, _ = run_case(texts, base_idx, Q, o)
        return vv is not None and vv.sig == sig

    ops2 = ddmin(ops, fails, max_tests=200)
    # drop base clauses that are not needed
    def fails_base(b):
        vv, _, _ = run_case(texts, sorted(b), Q, ops2)
        return vv is not None and vv.sig == sig

    base2 = ddmin(list(base_idx), fails_base, max_tests=150)
    vv, _, _ = run_case(texts, sorted(base2), Q, ops2)
    if vv is None or vv.sig != sig:
        base2, vv = list(base_idx), v
    used = sorted(set(base2) | set(op[2] for op in ops2 if op[0] in ("add", "add_interrupted")))
    m = {"signature": sig, "tags": tags, "op": sig.split(":", 1)[0]}
    m.update(vv.extra)
    return {"signature": sig, "summary": vv.why[:300], "match": m,
            "replay": {"texts": texts, "base": sorted(base2), "Q": Q, "ops": ops2, "tags": tags,
                       "readable": {"base": [texts[i] for i in sorted(base2)],
                                    "added": {str(op[1]): [] for op in ops2 if op[0] == "add"}},
                       "case_digest": digest((texts, sorted(base2), Q, ops2))}}


def new_result():
    return {"evaluations": 0, "nontrivial": [], "traces": [], "violations": [], "samples": [],
            "simulated_time": {"ops": 0}, "faults_injected": {"failing_add": 0, "interrupt": 0},
            "probes": {}, "pools": {}, "inconclusive": {}}


def shards(tier, seed, scale=1.0):
    nsh, per = {"quick": (32, 150), "thorough": (256, 375)}[tier]
    per = max(1, int(per * scale))
    return [{"name": "tree-%d" % s, "seed": sub(seed, ID, s), "cases": per, "faults": s % 3 == 2, "wall_limit_s": WALL_S[tier]}
            for s in range(nsh)]


def run_shard(shard):
    res = new_result()
    faults = shard["faults"]
    stats = {}
    seen = set()
    for i in range(shard["cases"]):
        case = make_case(shard["seed"], i, feat_override={"ads": True} if i % 2 == 0 else None)
        if case is None:
            res["inconclusive"]["discarded_oversize"] = res["inconclusive"].get("discarded_oversize", 0) + 1
            continue
        rng = stream(shard["seed"], "tree", i)
        prog = case["prog"]
        texts = clause_texts(prog)
        if len(texts) < 2:
            continue
        Q, _E = C08.candidates(prog, rng)
        base_idx, extra = split_program(prog, rng)
        tags = case["tags"]
        pool = "faults" if faults else "fault-free"
        for h in range(2):
            ops = gen_history(rng, len(texts), len(Q), faults)
            # 'add' ops index into all clause texts: map onto the extra clauses
            if not extra:
                continue
            for op in ops:
                if op[0] in ("add", "add_interrupted"):
                    op[2] = extra[op[2] % len(extra)]
            seen_add = set()
            ops = [op for op in ops if not (op[0] in ("add", "add_interrupted") and (op[2] in seen_add or seen_add.add(op[2])))]
            v, nontrivial, trace = run_case(texts, base_idx, Q, ops, stats, real_every=7)
            res["evaluations"] += 1
            res["simulated_time"]["ops"] += len(ops)
            res["pools"][pool] = res["pools"].get(pool, 0) + 1
            if v is None:
                if nontrivial:
                    res["nontrivial"].append(digest((case["digest"], base_idx, ops)))
                res["traces"].append(trace)
                if not res["samples"]:
                    res["samples"].append({"base": [texts[j] for j in base_idx], "extra": [texts[j] for j in extra],
                                           "queries": [gen.atom_str(q[:2]) for q in Q], "ops": ops, "verdict": "ok"})
                continue
            m = {"signature": v.sig, "tags": tags, "op": v.sig.split(":", 1)[0]}
            m.update(v.extra)
            owner = DC.owner_of(ID, m)
            if owner is not None:
                key = "absorbed:%s:%s" % (owner, v.sig)
                for r in res["violations"]:
                    if r.get("absorb_key") == key:
                        r["count_more"] = r.get("count_more", 0) + 1
                        break
                else:
                    res["violations"].append({"signature": v.sig, "summary": v.why[:300], "match": m, "absorb_key": key, "count_more": 0,
                                              "replay": {"texts": texts, "base": base_idx, "Q": Q, "ops": ops,
                                                         "case_digest": digest((texts, base_idx, ops))}})
                continue
            if v.sig in seen:
                continue
            seen.add(v.sig)
            res["violations"].append(build(texts, base_idx, Q, ops, v, tags))
    res["faults_injected"]["failing_add"] = stats.get("failing_add", 0)
    res["faults_injected"]["interrupt"] = stats.get("interrupt", 0)
    if stats.get("budget"):
        res["inconclusive"]["budget"] = stats["budget"]
    return res


def replay(doc):
    v, _, _ = run_case(doc["texts"], doc["base"], doc["Q"], doc["ops"])
    if v is None:
        return []
    m = {"signature": v.sig, "tags": doc.get("tags", []), "op": v.sig.split(":", 1)[0]}
    m.update(v.extra)
    return [{"signature": v.sig, "summary": v.why[:300], "match": m, "replay": dict(doc)}]
