"""C04 — the documented arbitrary-order (unbuffered) engines agree with the default engine.

Existing seams only (no repo hook): StackBasedEngine(unbuffered=True) [MessageOrderD, what --unbuffered
selects], StackBasedEngine(unbuffered=True, rc_first=True) [MessageOrderDrc] and the RandomOrderEngine /
RandomOrderQueue of docs/source/engine.rst whose random.randint is the simulator's seeded, recorded,
replayable choice source. Oracle: outcome of the default engine on the same program.
"""
import glob
import json
import os

from sim import gen, engines
from sim import pipeline as PL
from sim import diffcheck as DC
from sim.cases import make_case
from sim.seeds import sub, stream, digest
from checks import c03 as C03

ID = "C04"
WALL_S = {"quick": 300, "thorough": 3300}
REPO = os.environ.get("VERIF_REPO", "/repo")

PL._wrap_pop(engines.RandomOrderQueue)

META = {
    "rule": "one case = (program, engine mode, choice seed): the real pipeline with an unbuffered engine (depth-first D, rc-first Drc, or the "
            "documented random-order engine R with a seeded choice source) compared with the default buffered engine on the same program. "
            "non-trivial = the alternative engine popped at least one message in another order than the default trace (message-trace digest differs) "
            "and, for R, made at least one choice among >1 pending evaluations; distinct = new (program digest, mode, choice-log digest)",
    "trace_measure": "crc32 over the sequence of popped engine messages of the run",
    "components": {"real": ["StackBasedEngine unbuffered / rc_first", "MessageOrderD", "MessageOrderDrc", "MessageAnyOrder.cycle_exhausted",
                            "ClauseDB", "LogicFormula", "cycle breaking, CNF, dsharp, evaluator (fraction of runs) / in-process evaluator (rest)"],
                   "stub": [], "simulated": ["choice source of the documented RandomOrderQueue (seeded, recorded, scripted on replay)",
                                             "step clock / budget (messages popped)"]},
    "assumptions": [
        "lists built by findall/all/aggregates are compared up to element order (corpus files that mention them)",
        "RandomOrderEngine/RandomOrderQueue are the classes printed in docs/source/engine.rst, copied verbatim into the harness",
    ],
}


def run_mode(text, mode, choice=None, model=None, sort_lists=False, budget=200000, evaluator="fast"):
    src = None
    if mode == "R":
        if isinstance(choice, dict):
            src = engines.ChoiceSource(script=choice["script"])
        else:
            src = engines.ChoiceSource(rng=stream(choice, "choice"))
        engines.set_choice_source(src)
    o = PL.run_pipeline(text, engine_factory=engines.engine_factory(mode), budget=budget, sort_lists=sort_lists,
                        model=model, evaluator=evaluator)
    return o, (src.log if src is not None else [])


def pair_signature(text, mode, choice, model, sort_lists, evaluator="real"):
    base, _ = run_mode(text, "default", None, model, sort_lists, evaluator=evaluator)
    budget = max(200000, 500 * base["steps"]) if base["kind"] != "budget" else 200000
    o, log = run_mode(text, mode, choice, model, sort_lists, budget, evaluator=evaluator)
    sigt = DC.diff_signature(base, o)
    if sigt is not None:
        sigt = ("%s:%s" % (mode, sigt[0]),) + tuple(sigt[1:])
    return (sigt[0] if sigt else None), sigt, log, base, o


def explore(res, text, tags, seed, nrand, pool, model=None, sort_lists=False, prog=None, name=None):
    base, _ = run_mode(text, "default", None, model, sort_lists, evaluator="both")
    res["evaluations"] += 1
    res["simulated_time"]["messages"] += base["steps"]
    res["pools"][pool] = res["pools"].get(pool, 0) + 1
    if "fast_mismatch" in base:
        res["inconclusive"]["fast_vs_real_mismatch"] = res["inconclusive"].get("fast_vs_real_mismatch", 0) + 1
    budget = max(200000, 500 * base["steps"]) if base["kind"] != "budget" else 200000
    runs = [("D", None), ("Drc", None)] + [("R", sub(seed, "R", j)) for j in range(nrand)]
    rng = stream(seed, "which-real")
    real_idx = rng.randrange(len(runs))
    seen = set()
    sample = None
    failed_modes = set()
    wrong_modes = set()
    cyclic = prog is not None and "has_pos_cycle" in tags
    for idx, (mode, choice) in enumerate(runs):
        o, log = run_mode(text, mode, choice, model, sort_lists, budget, evaluator="both" if idx == real_idx else "fast")
        res["evaluations"] += 1
        res["modes"][mode] = res["modes"].get(mode, 0) + 1
        res["simulated_time"]["messages"] += o["steps"]
        res["traces"].append(o["trace"])
        nchoice = sum(1 for v, n in log if n > 1)
        res["faults_injected"]["random_choice_points"] += nchoice
        res["probes"]["real_pipeline_runs"] += 1 if o.get("evaluator") != "fast" else 0
        if o["trace"] != base["trace"] and (mode != "R" or nchoice):
            res["nontrivial"].append(digest((name or gen.program_digest(prog), mode, log)))
        sample = {"mode": mode, "choice_log": log[:20], "outcome": {k: o.get(k) for k in ("kind", "results", "cls", "steps")}}
        if base["kind"] == "budget" and o["kind"] == "budget":
            res["inconclusive"]["budget_both"] = res["inconclusive"].get("budget_both", 0) + 1
            continue
        b2, o2 = C03.comparable(base, o)
        sigt = DC.diff_signature(b2, o2)
        if sigt is None:
            continue
        if o.get("evaluator") == "fast" and sigt[0] in ("prob", "instances"):
            sig_r, sigt_r, log_r, base_r, o_r = pair_signature(text, mode, {"script": log} if mode == "R" else None, model, sort_lists)
            if sigt_r is None:
                res["inconclusive"]["fast_diff_not_confirmed_by_real"] = res["inconclusive"].get("fast_diff_not_confirmed_by_real", 0) + 1
                continue
            sigt, o, b2 = sigt_r[:1] + sigt_r[1:], o_r, base_r
            sig = sigt[0]
        else:
            sig = "%s:%s" % (mode, sigt[0])
            sigt = (sig,) + tuple(sigt[1:])
        if sig in seen:
            continue
        seen.add(sig)
        m = make_match(sig, sigt, b2, tags, mode, name)
        owner = DC.owner_of(ID, m)
        if owner is not None and prog is not None and "has_pos_cycle" in tags and m.get("faulty_is") == "alternative" \
                and str(m.get("faulty", "")).split(":")[0] in ("err", "crash"):
            failed_modes.add(mode)
        if owner is not None and prog is not None and "has_pos_cycle" in tags and m.get("kinds") in ("prob", "instances") \
                and not m.get("zero_prob_only"):
            wrong_modes.add(mode)
        if owner is not None:
            key = "absorbed:%s:%s" % (owner, sig)
            for v in res["violations"]:
                if v.get("absorb_key") == key:
                    v["count_more"] = v.get("count_more", 0) + 1
                    break
            else:
                res["violations"].append({"signature": sig, "summary": "%s: %s" % (sig, sigt[1]), "match": m, "absorb_key": key,
                                          "count_more": 0, "replay": {"program_text": text if prog is not None else None, "file": name,
                                                                      "mode": mode, "script": log, "case_digest": digest((text, mode, log))}})
            continue
        bv = build_violation(sig, sigt, b2, mode, log, text, tags, prog, model, sort_lists, name)
        if bv is None:
            res["inconclusive"]["fast_diff_not_confirmed_by_real"] = res["inconclusive"].get("fast_diff_not_confirmed_by_real", 0) + 1
            continue
        res["violations"].append(bv)
    if cyclic:
        rc = res.setdefault("rate_counters", {})
        rc["cyclic_programs"] = rc.get("cyclic_programs", 0) + 1
        for mo in failed_modes:
            rc["failing_" + mo] = rc.get("failing_" + mo, 0) + 1
        for mo in wrong_modes:
            rc["wrong_" + mo] = rc.get("wrong_" + mo, 0) + 1
    if len(res["samples"]) < 1 and sample:
        res["samples"].append({"program": text if len(text) < 1500 else name, "tags": tags,
                               "default": {k: base.get(k) for k in ("kind", "results", "cls", "steps")}, "alternative": sample})


def alt_higher(base, o):
    """True iff every differing common instance has a higher probability under the alternative engine
    (the direction an unfounded self-supporting positive loop produces)."""
    if base.get("kind") != "ok" or o.get("kind") != "ok":
        return False
    diffs = [(base["results"][k], o["results"][k]) for k in set(base["results"]) & set(o["results"])
             if abs(base["results"][k] - o["results"][k]) > 1e-9]
    return bool(diffs) and all(b < a for b, a in diffs)


def make_match(sig, sigt, base, tags, mode, name):
    """Match dict used by the findings policy. sigt = (sig, why, faulty outcome, other outcome)."""
    side = "default" if sigt[2] is base else "alternative"
    m = DC.match_dict(sigt, tags, side)
    m["mode"] = mode
    m["file"] = name
    m["kinds"] = sig.split(":", 1)[1].split("@")[0]
    if sig.endswith(":prob") or sig.endswith(":instances"):
        other = sigt[2] if sigt[3] is base else sigt[3]
        alt = sigt[2] if sigt[2] is not base else sigt[3]
        m["zero_prob_only"] = C03.zero_prob_only(base, alt)
        m["alt_higher"] = alt_higher(base, alt)
    return m


def build_violation(sig, sigt, base, mode, log, text, tags, prog, model, sort_lists, name):
    small_text = text
    choice = {"script": [v for v, n in log]} if mode == "R" else None
    # re-establish with the real pipeline on both sides (the exploration may have used the in-process evaluator)
    s1, sigt1, log1, base1, o1 = pair_signature(text, mode, choice, model, sort_lists)
    if s1 == sig:
        sigt, base, log = sigt1, base1, log1
    else:
        return None  # seen with the in-process evaluator only: not confirmed by the real pipeline
    if prog is not None:
        # while the program shrinks a scripted choice log keeps steering by position; good enough to stay in the same class
        small = DC.minimise_program(prog, lambda t: pair_signature(t, mode, choice, None, sort_lists)[0], sig)
        st = gen.program_text(small)
        s2, sigt2, log2, base2, o2 = pair_signature(st, mode, choice, None, sort_lists)
        if s2 == sig:
            small_text, sigt, log, base = st, sigt2, log2, base2
            tags = gen.tags_of_text(st) or tags
    script = [v for v, n in log]
    if mode == "R" and script:
        def fails(sc):
            try:
                return pair_signature(small_text, mode, {"script": sc}, model, sort_lists)[0] == sig
            except Exception:
                return False
        # truncate the script (the queue falls back to depth-first after its end)
        lo = list(script)
        while len(lo) > 64 and fails(lo[: len(lo) // 2]):
            lo = lo[: len(lo) // 2]
        while lo and len(lo) <= 64 and fails(lo[:-1]):
            lo = lo[:-1]
        s3, sigt3, log3, base3, o3 = pair_signature(small_text, mode, {"script": lo}, model, sort_lists)
        if s3 == sig:
            sigt, base, script = sigt3, base3, lo
    m = make_match(sig, sigt, base, tags, mode, name)
    alt = sigt[2] if sigt[2] is not base else sigt[3]
    return {"signature": sig, "summary": ("%s: %s" % (sig, sigt[1]))[:300], "match": m,
            "replay": {"program_text": small_text if prog is not None else None, "file": name, "sort_lists": sort_lists, "mode": mode,
                       "script": script, "tags": tags,
                       "default": {k: base.get(k) for k in ("kind", "results", "cls", "site", "msg")},
                       "alternative": {k: alt.get(k) for k in ("kind", "results", "cls", "site", "msg")},
                       "case_digest": digest((small_text if prog is not None else name, mode, script))}}


# Share of generated programs with a positive cycle on which an unbuffered mode fails with an error that the findings policy
# attributes to the (class-level) F5/F15 findings. Measured on the unchanged tree (quick tier, ~1600 cyclic programs): D 1.9 %, Drc 1.5 %, R 16 % (any of 4 random orders).
# The individual failures are known; a jump of the rate is not.
RATE_LIMIT = {"D": 0.08, "Drc": 0.08, "R": 0.32}
WRONG_LIMIT = 0.015  # share of cyclic programs with a silent wrong answer attributed to F17 / F17-class


def post_merge(acc):
    """Aggregate oracle over the recorded history of the whole run (called by the parent after merging the shards)."""
    rc = acc.get("rate_counters", {})
    n = rc.get("cyclic_programs", 0)
    out = []
    if n < 300:
        return out
    for mode in ("D", "Drc", "R"):
        r = rc.get("wrong_" + mode, 0) / float(n)
        if r > WRONG_LIMIT:
            sig = "wrong:%s" % mode
            out.append({"signature": sig, "summary": "%s: mode %s silently returns a wrong answer on %.2f %% of %d cyclic programs (limit %.1f %%, unchanged tree < 0.2 %%)" % (
                sig, mode, 100 * r, n, 100 * WRONG_LIMIT), "match": {"signature": sig, "mode": mode},
                "replay": {"rate": True, "wrong": True, "mode": mode, "limit": WRONG_LIMIT, "case_digest": digest(("wrong", mode))}})
    for mode, lim in RATE_LIMIT.items():
        r = rc.get("failing_" + mode, 0) / float(n)
        if r > lim:
            sig = "rate:%s" % mode
            out.append({"signature": sig, "summary": "%s: mode %s fails with known-finding errors on %.1f %% of %d cyclic programs (limit %.0f %%, unchanged tree: D 2 %%, Drc 2 %%, R 16 %%)" % (
                sig, mode, 100 * r, n, 100 * lim), "match": {"signature": sig, "mode": mode},
                "replay": {"rate": True, "mode": mode, "limit": lim, "case_digest": digest(("rate", mode))}})
    return out


def new_result():
    return {"evaluations": 0, "nontrivial": [], "traces": [], "violations": [], "samples": [],
            "simulated_time": {"messages": 0}, "faults_injected": {"random_choice_points": 0},
            "probes": {"real_pipeline_runs": 0}, "pools": {}, "inconclusive": {}, "modes": {}}


def shards(tier, seed, scale=1.0):
    out = []
    files = C03.corpus_files()
    nr = {"quick": 3, "thorough": 16}[tier]
    nchunks = 8
    for c in range(nchunks):
        out.append({"name": "corpus-%d" % c, "type": "corpus", "files": files[c::nchunks], "nrand": nr,
                    "seed": sub(seed, ID, "corpus", c), "wall_limit_s": WALL_S[tier]})
    nsh, per, nrand = {"quick": (24, 120, 4), "thorough": (256, 110, 12)}[tier]
    per = max(1, int(per * scale))
    for s in range(nsh):
        out.append({"name": "gen-%d" % s, "type": "gen", "seed": sub(seed, ID, "gen", s), "programs": per, "nrand": nrand,
                    "wall_limit_s": WALL_S[tier]})
    return out


def run_shard(shard):
    res = new_result()
    open_tags = DC.load_open_tags(ID)
    if shard["type"] == "corpus":
        for path in shard["files"]:
            with open(path) as f:
                text = f.read()
            sort_lists = any(w in text for w in C03.LISTY)
            explore(res, text, ["corpus"], sub(shard["seed"], os.path.basename(path)), shard["nrand"], "corpus",
                    model=C03.file_model(path), sort_lists=sort_lists,
                    name=os.path.relpath(path, REPO) if path.startswith(REPO) else os.path.relpath(path, DC.VERIF))
    else:
        for i in range(shard["programs"]):
            case = make_case(shard["seed"], i)
            if case is None:
                res["inconclusive"]["discarded_oversize"] = res["inconclusive"].get("discarded_oversize", 0) + 1
                continue
            pool = "frontier" if (set(case["tags"]) & open_tags) else "core"
            explore(res, case["text"], case["tags"], sub(shard["seed"], "run", i), shard["nrand"], pool, prog=case["prog"])
    return res


def replay(doc):
    if doc.get("rate"):
        # re-measure on the first generated shards of the quick tier, sequentially
        seed = int(os.environ.get("VERIF_SEED", "0") or 0)
        acc = {}
        for sh in [s for s in shards("quick", seed) if s["type"] == "gen"][:6]:
            r = run_shard(dict(sh, programs=60))
            for k, v in r.get("rate_counters", {}).items():
                acc[k] = acc.get(k, 0) + v
        n = max(acc.get("cyclic_programs", 0), 1)
        mode = doc["mode"]
        key = "wrong_" if doc.get("wrong") else "failing_"
        rate = acc.get(key + mode, 0) / float(n)
        if rate > doc.get("limit", RATE_LIMIT[mode]):
            sig = ("wrong:%s" if doc.get("wrong") else "rate:%s") % mode
            return [{"signature": sig, "summary": "%s: %.1f %% of %d cyclic programs" % (sig, 100 * rate, n), "match": {"signature": sig, "mode": mode},
                     "replay": dict(doc)}]
        return []
    name = doc.get("file")
    model = None
    if doc.get("program_text") is None and name:
        path = os.path.join(REPO, name) if os.path.exists(os.path.join(REPO, name)) else os.path.join(DC.VERIF, name)
        model = C03.file_model(path)
        with open(path) as f:
            text = f.read()
    else:
        text = doc["program_text"]
    mode = doc["mode"]
    sig, sigt, log, base, o = pair_signature(text, mode, {"script": doc.get("script", [])} if mode == "R" else None, model,
                                             doc.get("sort_lists", False))
    if sigt is None:
        return []
    tags = doc.get("tags", [])
    if doc.get("program_text"):
        tags = gen.tags_of_text(text) or tags
    m = make_match(sig, sigt, base, tags, mode, name)
    return [{"signature": sig, "summary": ("%s: %s" % (sig, sigt[1]))[:300], "match": m, "replay": dict(doc)}]
