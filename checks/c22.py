"""C22 — sampling draws from the program's distribution.

The simulator owns the PRNG seam: inside problog.tasks.sample the name `random` is rebound to a
facade whose random() returns a RecordingUniform (a float that records every comparison made with
it), so each probabilistic choice of the sampler becomes an observable event "uniform draw u was
compared with threshold t, outcome b". Draw values come from the run's seeded PRNG, with a seeded
fraction of adversarial values (0.0, the largest double below 1.0). The engine object is reused
across samples by the real code (history); the virtual alarm interrupts sample()/estimate().

Oracle: reference possible-world enumerator (exact conditional distribution, set of worlds that
satisfy the evidence). Queries are all ground atoms of the program's cone, so one sample fixes a
whole world.
"""
import math
import random as pyrandom
import re

import problog.tasks.sample as S
from problog.program import PrologString

from sim import gen, ref
from sim import pipeline as PL
from sim.alarm import Alarm
from sim.cases import make_case
from sim.seeds import sub, stream, digest

ID = "C22"
WALL_S = {"quick": 400, "thorough": 3300}

META = {
    "rule": "one case = (generated program with evidence, propagate_evidence setting, PRNG seed, adversarial-draw rate): n samples through the real sampler with the "
            "recording PRNG. Judged: per-draw thresholds (sequential AD sampling arithmetic), printed probability = product of recorded comparison outcomes, every accepted "
            "sample is a world of positive probability that satisfies the evidence and every rejected attempt violates it, an attempt replayed on a fresh engine from the "
            "captured PRNG state is identical (history independence), frequencies and estimate() within the Hoeffding radius (delta 1e-9 per query) of the exact conditional "
            "probability, samples yielded before a virtual-alarm interrupt still valid. non-trivial = at least 50 accepted samples and at least one probabilistic comparison "
            "per attempt; distinct = new (program digest, setting, seed)",
    "trace_measure": "digest of the first 50 attempts' comparison logs",
    "components": {"real": ["problog.tasks.sample: sample, estimate, SampledFormula.add_atom, init_db, verify_evidence, ground", "engine reused across samples"],
                   "stub": [], "simulated": ["PRNG (recording uniform draws, seeded, adversarial values)", "virtual alarm inside sample()/estimate()", "reference enumerator"]},
    "assumptions": [
        "Hoeffding bound: a sound program is flagged with probability < 1e-9 per query and run",
        "with propagate_evidence=True only the resulting distribution, consistency and the printed-probability product are judged (other proposal schemes would be legitimate)",
    ],
}

# adversarial draws sit 1e-12 inside the unit interval: far above float rounding of the thresholds (1e-16), so that
# events of probability ~2^-52 (u exactly 0.0, rounding of the remaining AD mass) are not demanded of the sampler
NEAR_ZERO = 1e-12
BELOW_ONE = 1.0 - 1e-12


class Bad(Exception):
    def __init__(self, sig, why):
        Exception.__init__(self, why)
        self.sig, self.why = sig, why


class RecordingUniform(float):
    """A uniform draw that records every comparison made with it."""

    def __new__(cls, value, sink):
        obj = float.__new__(cls, value)
        obj.sink = sink
        return obj

    def __lt__(self, other):
        r = float(self) < float(other)
        self.sink.append(("lt", float(other), r, float(self)))
        return r

    def __le__(self, other):
        r = float(self) <= float(other)
        self.sink.append(("le", float(other), r, float(self)))
        return r

    def __gt__(self, other):
        r = float(self) > float(other)
        self.sink.append(("gt", float(other), r, float(self)))
        return r

    def __ge__(self, other):
        r = float(self) >= float(other)
        self.sink.append(("ge", float(other), r, float(self)))
        return r


class Facade(object):
    """Stands for the module `random` inside problog.tasks.sample."""

    def __init__(self, rng, adversarial=0.0):
        self.rng = rng
        self.adv = adversarial
        self.sink = []
        self.ndraws = 0
        self.nadv = 0

    def random(self):
        self.ndraws += 1
        u = self.rng.random()
        if self.adv and self.rng.random() < self.adv:
            u = NEAR_ZERO if self.rng.random() < 0.5 else BELOW_ONE
            self.nadv += 1
        return RecordingUniform(u, self.sink)

    def __getattr__(self, name):
        return getattr(self.rng, name)


class TooManyAttempts(BaseException):
    """Raised by the recorder to stop a sampler that keeps rejecting (sample() itself never gives up)."""


class Recorder(object):
    """Wraps SampledFormula.__init__/add_atom and verify_evidence to delimit attempts."""

    def __init__(self, facade, capture_states=False, max_attempts=None):
        self.facade = facade
        self.attempts = []
        self.capture = capture_states
        self.max_attempts = max_attempts
        self._orig = {}

    def __enter__(self):
        rec = self
        self._orig = {"init": S.SampledFormula.__init__, "add_atom": S.SampledFormula.add_atom, "verify": S.verify_evidence,
                      "random": S.random}
        S.random = self.facade

        def init(self_, **kw):
            rec._orig["init"](self_, **kw)
            if rec.max_attempts is not None and len(rec.attempts) >= rec.max_attempts:
                raise TooManyAttempts()
            PL.CLOCK.steps = 0
            rec.attempts.append({"calls": [], "state": rec.facade.rng.getstate() if rec.capture else None, "accepted": None,
                                 "assignment": None})

        def add_atom(self_, identifier, probability, group=None, *a, **kw):
            sink = rec.facade.sink
            n0 = len(sink)
            known = identifier in self_.facts
            r = rec._orig["add_atom"](self_, identifier, probability, group, *a, **kw)
            if rec.attempts and probability is not None:
                try:
                    p = float(probability)
                except Exception:
                    p = None
                rec.attempts[-1]["calls"].append({"id": repr(identifier), "origin": repr(identifier[:-1]) if group is not None else None,
                                                  "p": p, "comps": sink[n0:], "result": r, "known": known})
            return r

        def verify(engine, db, ev_target, q_target):
            ok = rec._orig["verify"](engine, db, ev_target, q_target)
            if rec.attempts:
                asg = {str(k).replace(" ", ""): (v == 0) for k, v in q_target.queries()}
                rec.attempts[-1]["assignment"] = asg
                rec.attempts[-1]["accepted"] = bool(ok)
            return ok

        S.SampledFormula.__init__ = init
        S.SampledFormula.add_atom = add_atom
        S.verify_evidence = verify
        return self

    def __exit__(self, *exc):
        S.SampledFormula.__init__ = self._orig["init"]
        S.SampledFormula.add_atom = self._orig["add_atom"]
        S.verify_evidence = self._orig["verify"]
        S.random = self._orig["random"]
        return False


# ------------------------------------------------------------------------------------------------
# reference side


def all_atom_queries(case, limit=14):
    """Replace the program's queries by every ground atom of its cone (bounded)."""
    R = case["ref"]
    atoms = sorted(a for a in R.cone if a[0] != "dom")
    if len(atoms) > limit:
        keep = set(R.query_atoms) | set(a for a, _v in R.evidence_atoms)
        rest = [a for a in atoms if a not in keep]
        atoms = sorted(keep) + rest[: max(0, limit - len(keep))]
    prog = dict(case["prog"])
    prog["queries"] = [[a[0], list(a[1])] for a in atoms]
    return prog


def reference(prog):
    R = ref.Ref(prog, max_worlds=4096)
    names = [ref.gstr(a) for a in R.query_atoms]
    allowed = set()
    prior_support = set()
    pe = 0
    marg = {n: 0 for n in names}
    for w, sel in R.worlds():
        true, unknown = R.model(sel)
        assign = tuple(a in true for a in R.query_atoms)
        prior_support.add(assign)
        if all((a in true) == v for a, v in R.evidence_atoms):
            allowed.add(assign)
            pe += w
            for n, a in zip(names, R.query_atoms):
                if a in true:
                    marg[n] += w
    if pe == 0:
        return None
    return {"names": names, "allowed": allowed, "support": prior_support, "cond": {n: float(marg[n] / pe) for n in names},
            "pe": float(pe), "evidence": [(ref.gstr(a), v) for a, v in R.evidence_atoms]}


# ------------------------------------------------------------------------------------------------
# checks on one run


def check_attempt_arithmetic(att, pe_mode, where):
    """Check 1 (thresholds) and the product for check 2. Returns the product of comparison outcomes."""
    rejected_mass = {}
    chosen = set()
    prod = 1.0
    for c in att["calls"]:
        if c["known"]:
            if c["comps"]:
                raise Bad("redraw", "%s: atom %s was drawn again within one sample" % (where, c["id"]))
            continue
        p = c["p"]
        if p is None:
            continue
        comps = c["comps"]
        if c["origin"] is None:
            if len(comps) != 1:
                raise Bad("fact-draws", "%s: fact %s made %d comparisons" % (where, c["id"], len(comps)))
            op, thr, res, u = comps[0]
            if abs(thr - p) > 1e-12:
                raise Bad("fact-threshold", "%s: fact %s (p=%r) compared its draw with %r" % (where, c["id"], p, thr))
            if (c["result"] == 0) != res:
                raise Bad("fact-outcome", "%s: fact %s: comparison said %r, node %r" % (where, c["id"], res, c["result"]))
            prod *= thr if res else 1.0 - thr
        else:
            g = c["origin"]
            if g in chosen:
                if comps and not pe_mode:
                    pass  # a draw after the group is decided is wasteful but harmless; result must be false
                if c["result"] == 0:
                    raise Bad("ad-two-heads", "%s: AD group %s has two true heads in one sample" % (where, g))
                continue
            r = 1.0 - rejected_mass.get(g, 0.0)
            if not comps:
                if r >= 1e-8 and not (p == 0.0) and not pe_mode:
                    raise Bad("ad-no-draw", "%s: AD head %s (p=%r, remaining %r) decided without a draw" % (where, c["id"], p, r))
                rejected_mass[g] = rejected_mass.get(g, 0.0) + p
                continue
            if len(comps) != 1:
                raise Bad("ad-draws", "%s: AD head %s made %d comparisons" % (where, c["id"], len(comps)))
            op, thr, res, u = comps[0]
            want = p / r if r > 0 else float("inf")
            if not pe_mode and abs(thr - want) > 1e-9 * max(1.0, abs(want)):
                raise Bad("ad-threshold", "%s: AD head %s (p=%r, rejected mass %r) compared its draw with %r, sequential sampling needs %r" % (
                    where, c["id"], p, 1.0 - r, thr, want))
            if (c["result"] == 0) != res:
                raise Bad("ad-outcome", "%s: AD head %s: comparison said %r, node %r" % (where, c["id"], res, c["result"]))
            t = min(max(thr, 0.0), 1.0)
            prod *= t if res else 1.0 - t
            if res:
                chosen.add(g)
            else:
                rejected_mass[g] = rejected_mass.get(g, 0.0) + p
    return prod


def hoeffding(n, delta=1e-9):
    return math.sqrt(math.log(2.0 / delta) / (2.0 * n))


def run_sampler(text, n, pe, seed, adversarial, fmt="dict", capture=False, alarm_at=None, max_attempts=None, **kw):
    fac = Facade(pyrandom.Random(seed), adversarial)
    rec = Recorder(fac, capture_states=capture, max_attempts=max_attempts)
    out = []
    info = {"fired": False, "where": None, "count": 0, "gave_up": False}
    PL.CLOCK.reset(300000)
    with rec:
        gen_ = S.sample(PrologString(text), n=n, format=fmt, propagate_evidence=pe, **kw)
        alarm = Alarm(at=alarm_at) if alarm_at is not None else None
        try:
            if alarm is not None:
                with alarm:
                    for s in gen_:
                        out.append(s)
                        if max_attempts and len(rec.attempts) > max_attempts:
                            break
            else:
                for s in gen_:
                    out.append(s)
                    if max_attempts and len(rec.attempts) > max_attempts:
                        break
        except TooManyAttempts:
            info["gave_up"] = True
        finally:
            if alarm is not None:
                info.update(fired=alarm.fired, where=alarm.where, count=alarm.count)
            gen_.close()
            PL.CLOCK.budget = None
            PL.CLOCK.cb_budget = None
    return out, rec, fac, info


def judge_run(refd, out, rec, pe, where, stats):
    names = refd["names"]
    accepted = [a for a in rec.attempts if a["accepted"]]
    ev = refd["evidence"]
    for k, att in enumerate(rec.attempts):
        w = "%s attempt#%d" % (where, k)
        check_attempt_arithmetic(att, pe, w)
        if att["accepted"] is None or att["assignment"] is None:
            continue  # interrupted before verification
        asg = att["assignment"]
        tup = tuple(asg.get(n, False) for n in names)
        if att["accepted"]:
            if tup not in refd["allowed"]:
                kind = "violates-evidence" if tup in refd["support"] else "impossible-world"
                raise Bad("sample-%s" % kind, "%s: yielded sample %s is not a world consistent with the evidence %s" % (
                    w, {n: v for n, v in zip(names, tup) if v}, ev))
        else:
            stats["rejected"] = stats.get("rejected", 0) + 1
            if all(asg.get(n, False) == v for n, v in ev):
                raise Bad("rejected-consistent", "%s: attempt %s was rejected although it satisfies the evidence %s" % (
                    w, {n: v for n, v in zip(names, tup) if v}, ev))
    # progress: the reference says the evidence has probability pe; never accepting in m attempts has probability (1-pe)^m
    natt = sum(1 for a in rec.attempts if a["accepted"] is not None)
    if not accepted and natt > 25.0 / max(refd["pe"], 1e-6) + 10:
        raise Bad("never-accepts", "%s: %d attempts, none accepted, although the evidence %s has probability %.4g" % (where, natt, ev, refd["pe"]))
    return accepted


def judge_frequencies(refd, accepted_assignments, where, extra_eps=0.0):
    n = len(accepted_assignments)
    if n < 50:
        return False
    eps = hoeffding(n) + extra_eps
    for name in refd["names"]:
        f = sum(1 for a in accepted_assignments if a.get(name, False)) / float(n)
        p = refd["cond"][name]
        if abs(f - p) > eps:
            raise Bad("frequency", "%s: %s has frequency %.4f over %d samples, exact conditional probability %.4f (Hoeffding radius %.4f at 1e-9)" % (
                where, name, f, n, p, eps))
    return True


_PROB = re.compile(r"% Probability: ([0-9.eE+-]+)")


def explore(case, seed, n, res, stats, tier):
    prog = all_atom_queries(case)
    try:
        refd = reference(prog)
    except ref.TooBig:
        refd = None
    if refd is None:
        res["inconclusive"]["no_reference"] = res["inconclusive"].get("no_reference", 0) + 1
        return
    text = gen.program_text(prog)
    dig = gen.program_digest(prog)
    rate = refd["pe"]
    for pe in (False, True):
        cfg = "pe=%s" % pe
        # --- main run: clean PRNG, convergence + consistency + arithmetic + history independence
        budget = 3 * n  # attempts; the number of samples asked for follows from the reference acceptance rate
        nn = max(30, min(n, int(budget * rate * 0.8)))
        out, rec, fac, _ = run_sampler(text, nn, pe, sub(seed, "main", pe), 0.0, capture=True, max_attempts=budget)
        res["evaluations"] += 1
        res["simulated_time"]["attempts"] += len(rec.attempts)
        res["simulated_time"]["uniform_draws"] += fac.ndraws
        accepted = judge_run(refd, out, rec, pe, "%s clean" % cfg, stats)
        asg = [a["assignment"] for a in accepted]
        if judge_frequencies(refd, asg, "%s clean" % cfg) and fac.ndraws >= len(rec.attempts):
            res["nontrivial"].append(digest((dig, pe, seed)))
        res["traces"].append(digest([[c["comps"] for c in a["calls"]] for a in rec.attempts[:50]]))
        res["pools"][cfg] = res["pools"].get(cfg, 0) + 1
        if not res["samples"] and accepted:
            res["samples"].append({"program": text, "propagate_evidence": pe, "attempts": len(rec.attempts), "accepted": len(accepted),
                                   "first_attempt_comparisons": [[c["id"], c["p"], [list(x) for x in c["comps"]]] for c in rec.attempts[0]["calls"]][:12],
                                   "exact_conditional": refd["cond"]})
        # history independence: replay three attempts on a fresh engine/database from the captured PRNG state
        idxs = sorted(set([0, len(rec.attempts) // 2, len(rec.attempts) - 1]))
        for k in idxs:
            att = rec.attempts[k]
            if att["accepted"] is None or att["state"] is None:
                continue
            rng2 = pyrandom.Random()
            rng2.setstate(att["state"])
            fac2 = Facade(rng2, 0.0)
            rec2 = Recorder(fac2)
            with rec2:
                g2 = S.sample(PrologString(text), n=1, format="dict", propagate_evidence=pe)
                try:
                    next(g2)
                except StopIteration:
                    pass
                finally:
                    g2.close()
            stats["replayed_attempts"] = stats.get("replayed_attempts", 0) + 1
            if not rec2.attempts:
                continue
            a2 = rec2.attempts[0]
            if [c["comps"] for c in a2["calls"]] != [c["comps"] for c in att["calls"]] or a2["assignment"] != att["assignment"] \
                    or a2["accepted"] != att["accepted"]:
                raise Bad("history-dependence", "%s: attempt #%d of a reused engine differs from the same attempt on a fresh engine started from the same PRNG state" % (cfg, k))
        # --- printed probability (str format, with facts): product of the recorded comparisons
        out_s, rec_s, fac_s, _ = run_sampler(text, 20, pe, sub(seed, "str", pe), 0.0, fmt="str", with_probability=True, with_facts=True,
                                             max_attempts=2000)
        res["evaluations"] += 1
        acc_s = [a for a in rec_s.attempts if a["accepted"]]
        for s, att in zip(out_s, acc_s):
            m = _PROB.search(s)
            if not m:
                raise Bad("no-probability", "%s: with_probability output lacks the probability line" % cfg)
            printed = float(m.group(1))
            prod = check_attempt_arithmetic(att, pe, "%s str" % cfg)
            if pe:
                continue  # with propagation, choices forced by the evidence are not drawn: which factor they contribute is not stated
            if abs(printed - prod) > 1e-6 * max(prod, 1e-12) + 1e-12:
                raise Bad("printed-probability", "%s: printed probability %r, product of the choices made %r" % (cfg, printed, prod))
            stats["printed_checked"] = stats.get("printed_checked", 0) + 1
        # --- adversarial draws: arithmetic + consistency only
        out_a, rec_a, fac_a, _ = run_sampler(text, max(50, nn // 10), pe, sub(seed, "adv", pe), 0.08, max_attempts=budget // 4)
        res["evaluations"] += 1
        res["faults_injected"]["adversarial_draw"] += fac_a.nadv
        judge_run(refd, out_a, rec_a, pe, "%s adversarial" % cfg, stats)
        # --- estimate(): same distribution
        fac_e = Facade(pyrandom.Random(sub(seed, "est", pe)), 0.0)
        rec_e = Recorder(fac_e, max_attempts=budget // 2)
        import io, contextlib
        est = None
        try:
            with rec_e, contextlib.redirect_stdout(io.StringIO()):
                est = S.estimate(PrologString(text), n=max(30, nn // 2), propagate_evidence=pe)
        except TooManyAttempts:
            est = None  # gave up before estimate() returned: nothing to judge
        res["evaluations"] += 1
        ne = sum(1 for a in rec_e.attempts if a["accepted"])
        if est is not None and ne >= 50:
            eps = hoeffding(ne)
            estd = {str(k).replace(" ", ""): v for k, v in est.items()}
            for name in refd["names"]:
                v = estd.get(name, 0.0)
                if abs(v - refd["cond"][name]) > eps:
                    raise Bad("estimate", "%s: estimate() gives %s = %.4f after %d samples, exact %.4f (radius %.4f)" % (
                        cfg, name, v, ne, refd["cond"][name], eps))
        # --- timeout fault: virtual alarm inside sample()
        with Alarm() as cal:
            o0, r0, f0, _ = run_sampler(text, 6, pe, sub(seed, "tmo", pe), 0.0, max_attempts=300)
        N = max(cal.count, 2)
        rngT = stream(seed, "alarm", pe)
        for _ in range(2 if tier == "quick" else 6):
            T = rngT.randint(1, N)
            try:
                o1, r1, f1, info = run_sampler(text, 6, pe, sub(seed, "tmo", pe), 0.0, alarm_at=T, max_attempts=300)
            except KeyboardInterrupt:
                stats["interrupt_escaped"] = stats.get("interrupt_escaped", 0) + 1
                continue
            res["evaluations"] += 1
            if info["fired"]:
                res["faults_injected"]["interrupt"] += 1
            acc1 = judge_run(refd, o1, r1, pe, "%s alarm T=%d" % (cfg, T), stats)
            if len(o1) > len(acc1):
                raise Bad("yield-without-accept", "%s alarm T=%d: more samples yielded than accepted" % (cfg, T))


VALUED = [
    ("""uniform(0,10)::u(1).
uniform(0,10)::u(2).
0.5::c.
double(N,S) :- between(1,2,N), S is u(N)*2.
high(N) :- between(1,2,N), X is u(N), X > 5.
both :- high(1), c.
query(u(1)). query(u(2)). query(double(1,S)). query(double(2,S)). query(high(1)). query(high(2)). query(c). query(both).
""", "u"),
    ("""normal(0,1)::x.
exponential(2)::w.
0.3::a; 0.7::b.
pos :- V is x, V > 0.
sum(S) :- S is x + w.
mix :- pos, a.
query(x). query(w). query(pos). query(sum(S)). query(a). query(b). query(mix).
""", "x"),
]


def _val(v):
    if isinstance(v, bool):
        return v
    try:
        return float(v)
    except Exception:
        return v


def explore_valued(seed, res, stats):
    """Programs with continuous (valued) facts read through the function interface: no reference distribution, but
    (a) each sample must be internally consistent (derived values follow from the sampled values) and
    (b) history independence: an attempt of the reused engine equals the same attempt on a fresh engine."""
    for pi, (text, kind) in enumerate(VALUED):
        fac = Facade(pyrandom.Random(sub(seed, "valued", pi)), 0.0)
        rec = Recorder(fac, capture_states=True, max_attempts=400)
        outs = []
        PL.CLOCK.reset(300000)
        try:
            with rec:
                g = S.sample(PrologString(text), n=40, format="dict")
                try:
                    for s in g:
                        outs.append({str(k).replace(" ", ""): _val(v) for k, v in s.items()})
                finally:
                    g.close()
        finally:
            PL.CLOCK.budget = None
            PL.CLOCK.cb_budget = None
        res["evaluations"] += 1
        res["pools"]["valued"] = res["pools"].get("valued", 0) + 1
        for k, d in enumerate(outs):
            w = "valued program %d sample#%d" % (pi, k)
            if kind == "u":
                for n in (1, 2):
                    u = d.get("u(%d)" % n)
                    if isinstance(u, float):
                        key = [kk for kk in d if kk.startswith("double(%d," % n)]
                        # the value is part of the key: double(1,S) is reported as double(1,<value>)
                        ok = any(d[kk] and abs(float(kk[len("double(%d," % n):-1]) - 2 * u) < 1e-6 for kk in key)
                        if not ok:
                            raise Bad("valued-inconsistent", "%s: u(%d)=%r but %s" % (w, n, u, {kk: d[kk] for kk in key}))
                        if bool(d.get("high(%d)" % n)) != (u > 5):
                            raise Bad("valued-inconsistent", "%s: u(%d)=%r but high(%d)=%r" % (w, n, u, n, d.get("high(%d)" % n)))
            else:
                x = d.get("x")
                if isinstance(x, float) and bool(d.get("pos")) != (x > 0):
                    raise Bad("valued-inconsistent", "%s: x=%r but pos=%r" % (w, x, d.get("pos")))
        # history independence on attempts 1, middle, last
        accepted_idx = [i for i, a in enumerate(rec.attempts) if a["accepted"]]
        for k in sorted(set([1, len(accepted_idx) // 2, len(accepted_idx) - 1])):
            if k < 0 or k >= len(accepted_idx):
                continue
            att = rec.attempts[accepted_idx[k]]
            rng2 = pyrandom.Random()
            rng2.setstate(att["state"])
            fac2 = Facade(rng2, 0.0)
            rec2 = Recorder(fac2)
            with rec2:
                g2 = S.sample(PrologString(text), n=1, format="dict")
                try:
                    s2 = next(g2)
                except StopIteration:
                    s2 = None
                finally:
                    g2.close()
            stats["replayed_attempts"] = stats.get("replayed_attempts", 0) + 1
            if s2 is None:
                continue
            d2 = {str(kk).replace(" ", ""): _val(v) for kk, v in s2.items()}
            d1 = outs[k] if k < len(outs) else None
            if d1 is not None and d1 != d2:
                diff = {kk: (d1.get(kk), d2.get(kk)) for kk in set(d1) | set(d2) if d1.get(kk) != d2.get(kk)}
                raise Bad("history-dependence", "valued program %d: sample #%d of a reused engine differs from the same sample on a fresh engine started from the same PRNG state: %s" % (pi, k, str(diff)[:200]))


def new_result():
    return {"evaluations": 0, "nontrivial": [], "traces": [], "violations": [], "samples": [],
            "simulated_time": {"attempts": 0, "uniform_draws": 0}, "faults_injected": {"adversarial_draw": 0, "interrupt": 0},
            "probes": {}, "pools": {}, "inconclusive": {}}


def case_for(seed, i):
    return make_case(seed, i, need_solution=True, max_worlds=2048,
                     feat_override={"evidence": True, "ads": True} if i % 2 == 0 else {"evidence": i % 4 == 1})


def shards(tier, seed, scale=1.0):
    nsh, per, n = {"quick": (16, 3, 1500), "thorough": (64, 2, 6000)}[tier]
    per = max(1, int(per * scale))
    return [{"name": "smp-%d" % s, "seed": sub(seed, ID, s), "programs": per, "n": n, "tier": tier, "wall_limit_s": WALL_S[tier]}
            for s in range(nsh)]


def run_shard(shard):
    from sim import diffcheck as DC

    res = new_result()
    stats = {}
    seen = set()
    try:
        explore_valued(shard["seed"], res, stats)
    except Bad as b:
        seen.add(b.sig)
        res["violations"].append({"signature": b.sig, "summary": b.why[:400], "match": {"signature": b.sig, "tags": ["valued"], "pe": False},
                                  "replay": {"valued": True, "seed": shard["seed"], "case_digest": digest(("valued", shard["seed"]))}})
    for i in range(shard["programs"]):
        case = case_for(shard["seed"], i)
        if case is None:
            res["inconclusive"]["discarded"] = res["inconclusive"].get("discarded", 0) + 1
            continue
        if "nested_cycle_under_negation" in case["tags"]:
            res["inconclusive"]["skipped_F3_frontier"] = res["inconclusive"].get("skipped_F3_frontier", 0) + 1
            continue
        try:
            explore(case, sub(shard["seed"], "run", i), shard["n"], res, stats, shard["tier"])
        except Bad as b:
            m = {"signature": b.sig, "tags": case["tags"], "pe": "pe=True" in b.why}
            owner = DC.owner_of(ID, m)
            if owner is None and b.sig in seen:
                continue
            seen.add(b.sig)
            prog = all_atom_queries(case)
            v = {"signature": b.sig, "summary": b.why[:400], "match": m,
                 "replay": {"program_text": gen.program_text(prog), "seed": sub(shard["seed"], "run", i), "n": shard["n"], "tier": shard["tier"],
                            "case_digest": digest((gen.program_text(prog), sub(shard["seed"], "run", i)))}}
            if owner is not None:
                v["absorb_key"] = "absorbed:%s:%s" % (owner, b.sig)
            res["violations"].append(v)
        except (PL.StepBudget, PL.CycleBreakBudget):
            res["inconclusive"]["budget"] = res["inconclusive"].get("budget", 0) + 1
        except Exception as e:
            o = PL.outcome_of_exception(e)
            if not o.get("site"):
                raise  # no problog frame in the traceback: a bug of the harness, not of the sampler
            sig = "sampler-%s:%s@%s" % (o["kind"], o["cls"], (o.get("site") or ["?"])[0].split(" | ")[0])
            if sig in seen:
                continue
            seen.add(sig)
            prog = all_atom_queries(case)
            res["violations"].append({"signature": sig, "summary": ("%s: %s" % (sig, o.get("msg")))[:300],
                                      "match": {"signature": sig, "tags": case["tags"], "site": o.get("site")},
                                      "replay": {"program_text": gen.program_text(prog), "seed": sub(shard["seed"], "run", i), "n": shard["n"],
                                                 "tier": shard["tier"], "case_digest": digest((gen.program_text(prog), i))}})
    res["probes"] = {k: v for k, v in stats.items()}
    return res


def replay(doc):
    if doc.get("valued"):
        try:
            explore_valued(doc["seed"], new_result(), {})
        except Bad as b:
            return [{"signature": b.sig, "summary": b.why[:400], "match": {"signature": b.sig, "tags": ["valued"], "pe": False}, "replay": dict(doc)}]
        return []
    prog = gen.parse_text(doc["program_text"])
    R = ref.Ref(prog, max_worlds=4096)
    case = {"prog": prog, "ref": R, "tags": R.tags()}
    res = new_result()
    stats = {}
    try:
        # the stored program already has all-atom queries
        refd = reference(prog)
        if refd is None:
            return []
        explore_replay(prog, refd, doc["seed"], doc["n"], res, stats, doc.get("tier", "quick"))
    except Bad as b:
        return [{"signature": b.sig, "summary": b.why[:400], "match": {"signature": b.sig, "tags": case["tags"], "pe": "pe=True" in b.why},
                 "replay": dict(doc)}]
    except Exception as e:
        o = PL.outcome_of_exception(e)
        if not o.get("site"):
            raise
        sig = "sampler-%s:%s@%s" % (o["kind"], o["cls"], (o.get("site") or ["?"])[0].split(" | ")[0])
        return [{"signature": sig, "summary": sig, "match": {"signature": sig, "tags": case["tags"], "site": o.get("site")}, "replay": dict(doc)}]
    return []


def explore_replay(prog, refd, seed, n, res, stats, tier):
    """explore() on an explicit program (the replay file stores the all-atom-query program)."""
    case = {"prog": prog, "ref": ref.Ref(prog, max_worlds=4096), "digest": gen.program_digest(prog)}
    global all_atom_queries
    saved = all_atom_queries
    try:
        all_atom_queries = lambda c, limit=14: prog  # noqa: E731
        explore(case, seed, n, res, stats, tier)
    finally:
        all_atom_queries = saved
