"""C11 — the ground-program builder (LogicFormula) preserves Boolean meaning.

Seeded histories of builder calls over at most 4 atoms, with swarm-chosen builder options. Every
key ever returned is bound to a model expression (atoms, constants, and/or/not, late-bound mutable
cells for add_or(readonly=False) nodes). After EVERY call, for EVERY key returned so far, the truth
table of the implementation (least fixpoint over the node structure read through the public
iteration API, all 2^n assignments as a bitset) must equal the truth table of its model expression.
Invalid calls (updating FALSE or a non-disjunctive key) are the faults: they must raise ValueError
and change nothing.
"""
from sim.minimize import ddmin
from sim.seeds import sub, stream, digest

ID = "C11"
WALL_S = {"quick": 240, "thorough": 2400}

META = {
    "rule": "one case = (builder options, seeded history of 6-40 builder calls over <= 4 atoms). After every call every returned key's truth table "
            "(2^n assignments, least fixpoint for cyclic mutable disjunctions) is compared with its model expression. non-trivial = the history "
            "contains at least 3 compound-creating calls and at least one of: add_disjunct on a mutable node, a constant-folded or reused key; "
            "distinct = new (options, op-list) digest",
    "trace_measure": "digest of the sequence of (returned key, truth table) pairs",
    "components": {"real": ["problog.formula.LogicFormula: add_atom, add_and, add_or, add_disjunct, negate/add_not, add_name, _add_compound, _add, _update"],
                   "stub": [], "simulated": ["history generator", "symbolic model with late-bound cells", "invalid-call faults"]},
    "assumptions": [
        "add_disjunct is only applied to keys returned by add_or(readonly=False) (plus TRUE, FALSE and non-disjunctive keys as invalid-call probes): updating a readonly node is outside the builder's contract",
        "the generator never closes a cycle through a negation (the least fixpoint would be undefined)",
    ],
}


class Mismatch(Exception):
    pass


OPTION_SETS = [
    {}, {"auto_compact": False}, {"keep_order": True}, {"keep_duplicates": True}, {"keep_all": True},
    {"avoid_name_clash": True}, {"max_arity": 2}, {"max_arity": 3}, {"keep_order": True, "max_arity": 2},
    {"avoid_name_clash": True, "keep_order": True}, {"keep_all": True, "max_arity": 2},
    {"keep_duplicates": True, "max_arity": 3}, {"auto_compact": False, "keep_all": True},
]


def gen_case(rng):
    opts = dict(rng.choice(OPTION_SETS))
    natoms = rng.randint(1, 4)
    n = rng.randint(6, 40)
    w = {"atom": 2, "and": rng.choice([2, 4]), "or": rng.choice([2, 4]), "mor": rng.choice([1, 2, 3]),
         "disjunct": rng.choice([1, 3, 5]), "neg": 2, "name": rng.choice([0, 1]), "bad_disjunct": rng.choice([0, 1]),
         "det_atom": rng.choice([0, 1])}
    names = [k for k, c in w.items() for _ in range(c)]
    ops = []
    for i in range(natoms):
        ops.append(["atom", i, rng.choice([None, None, "g1"]) if rng.random() < 0.3 else None])
    for _ in range(n):
        k = rng.choice(names)
        if k == "atom":
            ops.append(["atom", rng.randrange(natoms), None])
        elif k == "det_atom":
            ops.append(["det_atom", rng.choice([True, False]), 10 + rng.randrange(3)])
        elif k in ("and", "or", "mor"):
            m = rng.choice([1, 2, 2, 3, 4])
            ops.append([k, [pick(rng) for _ in range(m)], rng.choice([None, None, "n%d" % rng.randrange(3)])])
        elif k == "disjunct":
            ops.append(["disjunct", rng.randrange(1 << 16), pick(rng)])
        elif k == "bad_disjunct":
            ops.append(["bad_disjunct", rng.choice(["false", "atom", "conj", "true"]), pick(rng)])
        elif k == "neg":
            ops.append(["neg", pick(rng)])
        elif k == "name":
            ops.append(["name", pick(rng), "q%d" % rng.randrange(3), rng.choice(["query", None, "evidence+"])])
    return {"opts": opts, "natoms": natoms, "ops": ops}


def pick(rng):
    """A reference to an earlier result: [index into results (mod), negate?] or a constant."""
    r = rng.random()
    if r < 0.06:
        return ["const", True]
    if r < 0.12:
        return ["const", False]
    return ["ref", rng.randrange(1 << 16), rng.random() < 0.25]


# ---- model expressions -----------------------------------------------------------------------------
# ("atom", i) ("const", b) ("and", [e..]) ("or", [e..]) ("not", e) ("cell", cid)


def ev_model(expr, cur, masks, FULL, other=None):
    """Truth table of a model expression. Cells under an even number of negations read `cur`,
    under an odd number `other` (alternating fixpoint); other=None means other=cur."""
    if other is None:
        other = cur
    t = expr[0]
    if t == "atom":
        return masks[expr[1]]
    if t == "const":
        return FULL if expr[1] else 0
    if t == "not":
        return FULL & ~ev_model(expr[1], other, masks, FULL, cur)
    if t == "and":
        v = FULL
        for e in expr[1]:
            v &= ev_model(e, cur, masks, FULL, other)
        return v
    if t == "or":
        v = 0
        for e in expr[1]:
            v |= ev_model(e, cur, masks, FULL, other)
        return v
    if t == "cell":
        return cur[expr[1]]
    raise ValueError(t)


def reaches_negatively(expr, target, cells, seen=None, neg=False):
    """Is there a path from expr to cell `target` that passes through a negation?
    Returns a set subset of {"pos","neg"} of path polarities found."""
    out = set()
    stack = [(expr, neg)]
    visited = set()
    while stack:
        e, ng = stack.pop()
        t = e[0]
        if t == "cell":
            if e[1] == target:
                out.add("neg" if ng else "pos")
                continue
            if (e[1], ng) in visited:
                continue
            visited.add((e[1], ng))
            for c in cells[e[1]]:
                stack.append((c, ng))
        elif t == "not":
            stack.append((e[1], True))
        elif t in ("and", "or"):
            for c in e[1]:
                stack.append((c, ng))
    return out


def run_case(case, stats=None):
    from problog.formula import LogicFormula
    from problog.logic import Term

    lf = LogicFormula(**case["opts"])
    n = case["natoms"]
    W = 1 << n
    FULL = (1 << W) - 1
    masks = []
    for i in range(n):
        m = 0
        for w in range(W):
            if (w >> i) & 1:
                m |= 1 << w
        masks.append(m)
    results = []  # (key, expr)
    cells = []  # cid -> list of exprs
    cell_of_key = {}
    atom_ident = {}  # identifier -> atom index / ("det", b)
    compound_calls = 0
    interesting = 0
    trace = []

    def resolve(p):
        if p[0] == "const":
            return (0 if p[1] else None), ("const", p[1])
        if not results:
            return 0, ("const", True)
        key, expr = results[p[1] % len(results)]
        if p[2]:
            return lf.negate(key), ("not", expr)
        return key, expr

    def impl_tables():
        nodes = list(lf)
        val = {}
        atoms = {}
        for i, nd, t in nodes:
            if t == "atom":
                ident = nd.identifier
                a = atom_ident.get(ident)
                if a is None:
                    atoms[i] = 0  # builder-created helper atom (AD extra node): referenced by no key
                elif isinstance(a, tuple):
                    atoms[i] = FULL if a[1] else 0
                else:
                    atoms[i] = masks[a]
        comp = [(i, nd, t) for i, nd, t in nodes if t != "atom"]

        def gamma(negref):
            cur = {i: 0 for i, _nd, _t in comp}

            def v(c):
                if c is None:
                    return 0
                if c == 0:
                    return FULL
                a = abs(c)
                x = atoms.get(a)
                if x is None:
                    x = cur[a] if (c > 0 or negref is None) else negref[a]
                return x if c > 0 else FULL & ~x

            changed = True
            while changed:
                changed = False
                for i, nd, t in comp:
                    if t == "conj":
                        x = FULL
                        for c in nd.children:
                            x &= v(c)
                    else:
                        x = 0
                        for c in nd.children:
                            x |= v(c)
                    if x != cur[i]:
                        cur[i] = x
                        changed = True
            return cur

        under = {i: 0 for i, _nd, _t in comp}
        for _ in range(64):
            over = gamma(under)
            new_under = gamma(over)
            if new_under == under:
                break
            under = new_under
        tab = dict(atoms)
        tab.update(under)
        return tab

    def model_cells():
        def gamma(other):
            val = [0] * len(cells)
            changed = True
            while changed:
                changed = False
                for cid, content in enumerate(cells):
                    x = 0
                    for e in content:
                        x |= ev_model(e, val, masks, FULL, other)
                    if x != val[cid]:
                        val[cid] = x
                        changed = True
            return val

        under = [0] * len(cells)
        for _ in range(64):
            over = gamma(under)
            new_under = gamma(over)
            if new_under == under:
                break
            under = new_under
        return under

    def check(where):
        tab = impl_tables()
        cv = model_cells()
        for key, expr in results:
            want = ev_model(expr, cv, masks, FULL)
            if key is None:
                got = 0
            elif key == 0:
                got = FULL
            else:
                g = tab.get(abs(key))
                if g is None:
                    raise Mismatch("%s: key %r does not exist in the formula" % (where, key))
                got = g if key > 0 else FULL & ~g
            if got != want:
                raise Mismatch("%s: key %r denotes %s, the call sequence describes %s (expr %s)" % (
                    where, key, bin(got), bin(want), show(expr)))
        trace.append(digest(sorted((str(k), ev_model(e, cv, masks, FULL)) for k, e in results)))

    for idx, op in enumerate(case["ops"]):
        k = op[0]
        where = "op#%d %s" % (idx, k)
        if k == "atom":
            i = op[1]
            key = lf.add_atom(i, 0.1 + 0.2 * i, group=op[2], name=Term("a%d" % i))
            atom_ident[i] = i
            results.append((key, ("atom", i)))
        elif k == "det_atom":
            b, ident = op[1], op[2]
            if ident in atom_ident and atom_ident[ident] != ("det", b):
                b = atom_ident[ident][1]
            key = lf.add_atom(ident, None if b else False, name=Term("d%d" % ident))
            atom_ident[ident] = ("det", b)
            results.append((key, ("const", b)))
            interesting += 1
        elif k in ("and", "or", "mor"):
            pairs = [resolve(p) for p in op[1]]
            keys = [p[0] for p in pairs]
            exprs = [p[1] for p in pairs]
            name = Term(op[2]) if op[2] else None
            before = len(lf)
            if k == "and":
                key = lf.add_and(keys, name=name)
                results.append((key, ("and", exprs)))
            elif k == "or":
                key = lf.add_or(keys, name=name)
                results.append((key, ("or", exprs)))
            else:
                key = lf.add_or(keys, readonly=False, name=name)
                if key is None or key == 0:
                    # folded to a constant: not updatable, behaves as that constant forever
                    results.append((key, ("or", exprs)))
                else:
                    cells.append(list(exprs))
                    cell_of_key[key] = len(cells) - 1
                    results.append((key, ("cell", len(cells) - 1)))
            compound_calls += 1
            if len(lf) == before:
                interesting += 1  # folded or reused
        elif k == "disjunct":
            if not cell_of_key:
                continue
            keys_sorted = sorted(cell_of_key)
            key = keys_sorted[op[1] % len(keys_sorted)]
            cid = cell_of_key[key]
            ck, cexpr = resolve(op[2])
            pol = reaches_negatively(cexpr, cid, cells)
            if "neg" in pol:
                continue  # would close a cycle through negation: least fixpoint undefined, not generated
            r = lf.add_disjunct(key, ck)
            cells[cid].append(cexpr)
            results.append((key, ("cell", cid)))
            interesting += 1
            if stats is not None and "pos" in pol:
                stats["positive_cycles_closed"] = stats.get("positive_cycles_closed", 0) + 1
        elif k == "bad_disjunct":
            ck, cexpr = resolve(op[2])
            target = None
            if op[1] == "false":
                target = None
            elif op[1] == "true":
                target = 0
            else:
                want_t = "atom" if op[1] == "atom" else "conj"
                for i, nd, t in lf:
                    if t == want_t:
                        target = i
                        break
                else:
                    continue
            if op[1] == "true":
                r = lf.add_disjunct(0, ck)
                if r != 0:
                    raise Mismatch("%s: add_disjunct(TRUE, x) returned %r" % (where, r))
            else:
                try:
                    lf.add_disjunct(target, ck)
                    raise Mismatch("%s: add_disjunct on a %s key did not raise ValueError" % (where, op[1]))
                except ValueError:
                    if stats is not None:
                        stats["invalid_call"] = stats.get("invalid_call", 0) + 1
        elif k == "neg":
            key, expr = resolve(op[1])
            if stats is not None:
                pass
            nk = lf.negate(key) if idx % 2 else lf.add_not(key)
            results.append((nk, ("not", expr)))
        elif k == "name":
            key, expr = resolve(op[1])
            lab = {"query": lf.LABEL_QUERY, "evidence+": lf.LABEL_EVIDENCE_POS, None: None}[op[3]]
            lf.add_name(Term(op[2]), key, lab)
            results.append((key, expr))
        check(where)
    return compound_calls, interesting, digest(trace)


def show(e, depth=0):
    t = e[0]
    if depth > 4:
        return "..."
    if t == "atom":
        return "a%d" % e[1]
    if t == "const":
        return "T" if e[1] else "F"
    if t == "not":
        return "~" + show(e[1], depth + 1)
    if t == "cell":
        return "cell%d" % e[1]
    return "%s(%s)" % (t, ",".join(show(x, depth + 1) for x in e[1]))


def classify(msg, case):
    m = msg.split(":", 1)[0].split(" ")[-1]
    kind = "missing-key" if "does not exist" in msg else ("no-valueerror" if "did not raise" in msg else "meaning")
    return "%s:%s" % (kind, m)


def try_case(case, stats=None):
    try:
        c, i, tr = run_case(case, stats)
        return None, c, i, tr
    except Mismatch as e:
        return ("mismatch", str(e)), 0, 0, None
    except Exception as e:
        return ("crash:" + type(e).__name__, "%s: %s" % (type(e).__name__, e)), 0, 0, None


def signature(v, case):
    if v[0] == "mismatch":
        return classify(v[1], case)
    return v[0]


def minimise(case, sig):
    def fails(ops):
        c = dict(case, ops=ops)
        v, _, _, _ = try_case(c)
        return v is not None and signature(v, c) == sig
    ops = ddmin(case["ops"], fails, max_tests=500)
    return dict(case, ops=ops)


def shards(tier, seed, scale=1.0):
    nsh, per = {"quick": (16, 12000), "thorough": (64, 150000)}[tier]
    per = max(1, int(per * scale))
    return [{"name": "b-%d" % s, "seed": sub(seed, ID, s), "runs": per, "wall_limit_s": WALL_S[tier]} for s in range(nsh)]


def run_shard(shard):
    res = {"evaluations": 0, "nontrivial": [], "traces": [], "violations": [], "samples": [],
           "simulated_time": {"builder_calls": 0}, "faults_injected": {"invalid_call": 0},
           "probes": {"positive_cycles_closed": 0}, "pools": {}, "inconclusive": {}}
    stats = {}
    seen = set()
    for r in range(shard["runs"]):
        case = gen_case(stream(shard["seed"], r))
        v, comp, inter, trace = try_case(case, stats)
        res["evaluations"] += 1
        res["simulated_time"]["builder_calls"] += len(case["ops"])
        ok = ",".join("%s=%s" % kv for kv in sorted(case["opts"].items())) or "default"
        res["pools"][ok] = res["pools"].get(ok, 0) + 1
        if v is None:
            if comp >= 3 and inter >= 1:
                res["nontrivial"].append(digest(case))
            res["traces"].append(trace)
            if not res["samples"]:
                res["samples"].append({"options": case["opts"], "atoms": case["natoms"], "ops": case["ops"][:30], "verdict": "ok"})
            continue
        sig = signature(v, case)
        if sig in seen:
            continue
        seen.add(sig)
        small = minimise(case, sig)
        v2, _, _, _ = try_case(small)
        res["violations"].append({"signature": sig, "summary": (v2 or v)[1][:300], "match": {"signature": sig, "opts": sorted(case["opts"])},
                                  "replay": {"case": small, "case_digest": digest(small)}})
    res["faults_injected"]["invalid_call"] = stats.get("invalid_call", 0)
    res["probes"]["positive_cycles_closed"] = stats.get("positive_cycles_closed", 0)
    return res


def replay(doc):
    case = doc["case"]
    v, _, _, _ = try_case(case)
    if v is None:
        return []
    sig = signature(v, case)
    return [{"signature": sig, "summary": v[1][:300], "match": {"signature": sig, "opts": sorted(case["opts"])}, "replay": dict(doc)}]
