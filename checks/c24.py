"""C24 — learning from interpretations is a monotone EM producing valid parameters (narrow claim).

What simulation owns here: the PRNG that initialises the t(_) parameters (problog.learning.lfi's
module-level `random`) and the iteration loop itself: the learner is *stepped* by the simulator
(prepare(), then step() N times) instead of run(), so invariants are checked after every
iteration. No other fault kind applies to this code.

Workload: template programs with tunable facts and tunable annotated disjunctions (with and
without bodies, optionally mixed with fixed probabilities), hidden and observed atoms; datasets
sampled by the independent reference enumerator from a reference parameterisation with all
parameters in [0.05, 0.95] (so no example is impossible), complete or partially observed.
"""
import math
import random as pyrandom

import problog.learning.lfi as LFI
from problog.logic import Term
from problog.program import PrologString

from sim import gen, ref
from sim import pipeline as PL
from sim.seeds import sub, stream, digest

ID = "C24"
WALL_S = {"quick": 400, "thorough": 3300}

META = {
    "rule": "one case = (template program with t(_) parameters, dataset of 8-40 interpretations sampled from a reference parameterisation, configuration, PRNG seed of the "
            "initialisation): prepare() under the seeded PRNG seam, then up to 12 step() calls with, after every step: log-likelihood not below the previous one (1e-9 relative), "
            "every weight in [0,1], every annotated disjunction summing to <= 1; on fully observed identifiable data the first step must return the relative frequencies. "
            "non-trivial = at least 3 steps ran with at least one hidden (unobserved) choice or a multi-head AD; distinct = new (program, dataset, config, seed) digest",
    "trace_measure": "digest of the log-likelihood sequence (rounded to 1e-9)",
    "components": {"real": ["LFIProblem.prepare / step / _update / _normalize_weights / _process_examples", "ExampleEvaluator / ExampleEvaluatorLog",
                            "example compilation (engine, dsharp)"],
                   "stub": [], "simulated": ["PRNG of the parameter initialisation (seeded, adversarial values near 0 and 1)", "stepped iteration loop",
                                             "dataset sampler over the reference enumerator"]},
    "assumptions": [
        "primary configuration = what `problog lfi` runs (normalize=True, propagate_evidence=True, infer_AD_values=True) with reference ADs whose tunable heads sum to the available mass; "
        "secondary configurations (normalize=False; sub-unit ADs) are run and reported under their own signatures",
        "the reported log-likelihood of step t belongs to the parameters before the update of step t",
    ],
}


class Bad(Exception):
    def __init__(self, sig, why):
        Exception.__init__(self, why)
        self.sig, self.why = sig, why


# ------------------------------------------------------------------------------------------------
# template generator


def gen_lfi_case(rng):
    """Returns dict: clauses with 't' markers, reference probabilities, list of atoms."""
    clauses = []   # AST clauses; tunable probability is ["t", ref_value]
    natoms = 0
    hidden = []
    sub_unit = False
    nfacts = rng.randint(0, 3)
    facts = []
    for i in range(nfacts):
        a = ["a%d" % i, []]
        tun = rng.random() < 0.8
        p = round(rng.uniform(0.05, 0.95), 2)
        clauses.append({"heads": [[["t", p] if tun else p, a]], "body": []})
        facts.append(a)
    nad = rng.randint(0 if nfacts else 1, 2)
    ad_heads = []
    for j in range(nad):
        k = rng.randint(2, 3)
        with_body = rng.random() < 0.5
        exact_one = rng.random() < 0.6
        ws = [rng.uniform(0.1, 1.0) for _ in range(k + (0 if exact_one else 1))]
        tot = sum(ws)
        ps = [round(w / tot, 2) for w in ws[:k]]
        if exact_one:
            ps[-1] = round(1.0 - sum(ps[:-1]), 2)
            if ps[-1] < 0.05:
                ps = [round(1.0 / k, 2)] * (k - 1)
                ps.append(round(1.0 - sum(ps), 2))
        else:
            sub_unit = True
        heads = []
        fixed_one = rng.random() < 0.25
        nfixed = 1 if fixed_one else 0
        if not fixed_one and rng.random() < 0.2:
            # two fixed heads with the same probability in front of the tunable ones (the fixed mass is their sum)
            p0 = round(rng.uniform(0.08, 0.3), 2)
            rest = 1.0 - 2 * p0
            pt = [max(0.01, round(p * rest, 2)) for p in ps]
            if exact_one:
                pt[-1] = round(rest - sum(pt[:-1]), 2)
            if pt[-1] >= 0.01 and 2 * p0 + sum(pt) <= 1.0 + 1e-9:
                ps = [p0, p0] + pt
                k += 2
                nfixed = 2
        for h in range(k):
            atom = ["x%d_%d" % (j, h), []]
            prob = ps[h] if h < nfixed else ["t", ps[h]]
            heads.append([prob, atom])
            ad_heads.append(atom)
        body = []
        if with_body:
            b = ["b%d" % j, []]
            clauses.append({"heads": [[round(rng.uniform(0.3, 0.9), 2), b]], "body": []})
            body = [[True, b]]
            facts.append(b)
        clauses.append({"heads": heads, "body": body})
    if not any(isinstance(p, list) for cl in clauses for p, _a in cl["heads"]):
        a = ["a9", []]
        clauses.append({"heads": [[["t", round(rng.uniform(0.05, 0.95), 2)], a]], "body": []})
        facts.append(a)
    base_atoms = facts + ad_heads
    # observed derived atoms
    nder = rng.randint(0, 2)
    derived = []
    for d in range(nder):
        o = ["o%d" % d, []]
        for _ in range(rng.randint(1, 2)):
            body = [[rng.random() < 0.85, rng.choice(base_atoms)] for _ in range(rng.randint(1, 2))]
            # keep range restriction trivial (all ground); avoid l and \\+l in one body
            seen = {}
            ok = True
            for pos, at in body:
                if at[0] in seen and seen[at[0]] != pos:
                    ok = False
                seen[at[0]] = pos
            if ok:
                clauses.append({"heads": [[None, o]], "body": body})
        if any(c["heads"][0][1] == o for c in clauses):
            derived.append(o)
    return {"clauses": clauses, "base_atoms": base_atoms, "derived": derived, "sub_unit": sub_unit}


def texts(case):
    """(learning program text with t(_), reference program AST with numbers)."""
    learn, refc = [], []
    for c in case["clauses"]:
        lh, rh = [], []
        for p, a in c["heads"]:
            if isinstance(p, list):
                lh.append(["t(_)", a])
                rh.append([p[1], a])
            else:
                lh.append([p, a])
                rh.append([p, a])
        learn.append({"heads": lh, "body": c["body"]})
        refc.append({"heads": rh, "body": c["body"]})
    atoms = case["base_atoms"] + case["derived"]
    refprog = {"consts": ["a"], "clauses": refc, "queries": atoms, "evidence": []}
    return "\n".join(gen.clause_str(c) for c in learn) + "\n", refprog


def sample_dataset(refprog, rng, n, mode):
    R = ref.Ref(refprog, max_worlds=8192)
    worlds = list(R.worlds())
    cum = []
    acc = 0.0
    for w, sel in worlds:
        acc += float(w)
        cum.append(acc)
    atoms = R.query_atoms
    observe = None
    if mode == "derived_only":
        observe = [a for a in atoms if a[0].startswith("o")] or None
    data = []
    for _ in range(n):
        u = rng.random() * acc
        lo = 0
        while cum[lo] < u:
            lo += 1
        true, _unk = R.model(worlds[lo][1])
        ex = []
        for a in atoms:
            if mode == "complete":
                keep = True
            elif mode == "derived_only" and observe:
                keep = a in observe
            else:
                keep = rng.random() < 0.6
            if keep:
                ex.append((ref.gstr(a), a in true))
        if not ex:
            ex.append((ref.gstr(atoms[0]), atoms[0] in true))
        data.append(ex)
    return data


# ------------------------------------------------------------------------------------------------
# stepping the learner


class SeamRandom(object):
    def __init__(self, rng, adversarial=0.0):
        self.rng = rng
        self.adv = adversarial
        self.ndraws = 0
        self.nadv = 0

    def random(self):
        self.ndraws += 1
        u = self.rng.random()
        if self.adv and self.rng.random() < self.adv:
            self.nadv += 1
            u = 1e-6 if self.rng.random() < 0.5 else 1.0 - 1e-6
        return u

    def seed(self, *a, **k):
        pass

    def __getattr__(self, name):
        return getattr(self.rng, name)


def ad_groups(lfi):
    out = []
    for avail, idx in lfi._adatoms:
        if len(idx) >= 1:
            out.append((avail, list(idx)))
    return out


def weights_of(lfi):
    vals = []
    for i in range(lfi.count):
        for _k, v in lfi.get_weights(i):
            vals.append((i, float(v)))
    return vals


def fixed_mass_of(text):
    """tunable head atom -> summed probability of the fixed heads of its annotated disjunction (from the program text)."""
    out = {}
    for line in text.splitlines():
        head = line.split(":-")[0].strip().rstrip(".")
        if "t(_)::" not in head or ";" not in head:
            continue
        fixed, tun = 0.0, []
        for part in head.split(";"):
            pr, _, atom = part.strip().partition("::")
            if pr.strip().startswith("t("):
                tun.append(atom.strip().replace(" ", ""))
            else:
                try:
                    fixed += float(pr)
                except ValueError:
                    fixed = None
                    break
        if fixed:
            for a in tun:
                out[a] = fixed
    return out


def run_learner(text, data, cfg, seed, adversarial, nsteps, freq=None, stats=None):
    """Returns (lls, nweights). Raises Bad."""
    examples = [[(Term.from_string(a), v) for a, v in ex] for ex in data]
    seam = SeamRandom(pyrandom.Random(seed), adversarial)
    saved = LFI.random
    LFI.random = seam
    PL.CLOCK.reset(None)
    try:
        lfi = LFI.LFIProblem(PrologString(text), examples, max_iter=nsteps, verbose=0, **cfg)
        lfi.prepare()
    finally:
        LFI.random = saved
    if stats is not None:
        stats["init_draws"] = stats.get("init_draws", 0) + seam.ndraws
        stats["adversarial_init"] = stats.get("adversarial_init", 0) + seam.nadv
    lls = []
    fixed_mass = fixed_mass_of(text)
    where0 = "cfg=%s" % (",".join("%s=%s" % kv for kv in sorted(cfg.items())))
    for t in range(nsteps):
        ll, _conv = lfi.step()
        lls.append(ll)
        where = "%s step %d" % (where0, t + 1)
        for i, v in weights_of(lfi):
            if not (v >= -1e-12 and v <= 1.0 + 1e-9) or v != v:
                raise Bad("weight-range", "%s: parameter %s = %r is not a probability" % (where, lfi.names[i], v))
        for avail, idx in ad_groups(lfi):
            if len(idx) < 2:
                continue
            s = sum(v for i, v in weights_of(lfi) if i in idx)
            if s > 1.0 + 1e-9:
                raise Bad("ad-sum", "%s: annotated disjunction %s sums to %r" % (where, [str(lfi.names[i]) for i in idx], s))
            if cfg.get("normalize"):
                # the fixed heads of the disjunction count too; their mass is read from the program text, not from the
                # learner's own bookkeeping (judged for normalize=True only, the configuration that promises it)
                fx = [fixed_mass.get(str(lfi.names[i].with_probability(None)).replace(" ", "")) for i in idx
                      if hasattr(lfi.names[i], "with_probability")]
                fx = [f for f in fx if f is not None]
                if fx and s + fx[0] > 1.0 + 1e-6:
                    raise Bad("ad-sum", "%s: annotated disjunction %s sums to %r with its fixed heads (%r)" % (
                        where, [str(lfi.names[i]) for i in idx], s + fx[0], fx[0]))
        if t >= 1 and lls[t] < lls[t - 1] - 1e-9 * max(1.0, abs(lls[t - 1])):
            raise Bad("ll-decrease", "%s: log-likelihood %r after %r" % (where, lls[t], lls[t - 1]))
        if t == 0 and freq is not None:
            for i in range(lfi.count):
                name = str(lfi.names[i].with_probability(None)) if hasattr(lfi.names[i], "with_probability") else str(lfi.names[i])
                name = name.replace(" ", "")
                if name in freq:
                    got = [v for j, v in weights_of(lfi) if j == i]
                    if got and abs(got[0] - freq[name]) > 1e-9:
                        raise Bad("relative-frequency", "%s: fully observed data, %s learned %r after one iteration, relative frequency %r" % (
                            where, name, got[0], freq[name]))
        if t >= 2 and abs(lls[t] - lls[t - 1]) < 1e-12:
            break
    return lls, lfi.count


def relative_frequencies(case, data):
    """Only for complete data and identifiable tunable heads: name -> MLE."""
    freq = {}
    n = len(data)
    rows = [dict(ex) for ex in data]
    for c in case["clauses"]:
        tun = [(p, a) for p, a in c["heads"] if isinstance(p, list)]
        if not tun or len(tun) != len(c["heads"]):
            continue  # with a fixed head in the AD the estimate is a constrained maximum, not the raw relative frequency
        if c["body"]:
            b = gen.atom_str(c["body"][0][1])
            denom = sum(1 for r in rows if r.get(b))
        else:
            denom = n
        if denom == 0:
            continue
        for p, a in tun:
            nm = gen.atom_str(a)
            freq[nm] = sum(1 for r in rows if r.get(nm)) / float(denom)
    return freq


CONFIGS = {
    "cli": {"normalize": True, "propagate_evidence": True, "infer_AD_values": True},
    "cli-log": {"normalize": True, "propagate_evidence": True, "infer_AD_values": True, "logspace": True},
    "api": {"normalize": False, "propagate_evidence": False, "infer_AD_values": True},
    "api-noinfer": {"normalize": False, "propagate_evidence": False, "infer_AD_values": False},
}


def new_result():
    return {"evaluations": 0, "nontrivial": [], "traces": [], "violations": [], "samples": [],
            "simulated_time": {"em_steps": 0}, "faults_injected": {"adversarial_init": 0},
            "probes": {}, "pools": {}, "inconclusive": {}}


def shards(tier, seed, scale=1.0):
    nsh, per, ninit = {"quick": (16, 5, 3), "thorough": (96, 4, 6)}[tier]
    per = max(1, int(per * scale))
    return [{"name": "lfi-%d" % s, "seed": sub(seed, ID, s), "cases": per, "ninit": ninit, "wall_limit_s": WALL_S[tier]} for s in range(nsh)]


def run_one(case, data, mode, cfgname, seed, adversarial, stats=None):
    text, _refprog = texts(case)
    cfg = CONFIGS[cfgname]
    freq = None
    if mode == "complete":
        freq = relative_frequencies(case, data)
        if cfg.get("normalize") and case["sub_unit"]:
            freq = None  # renormalisation to the full mass is not the relative frequency when 'no head' examples exist
    return run_learner(text, data, cfg, seed, adversarial, 12, freq, stats)


def run_shard(shard):
    from sim import diffcheck as DC

    res = new_result()
    stats = {}
    seen = set()
    for i in range(shard["cases"]):
        rng = stream(shard["seed"], "case", i)
        case = gen_lfi_case(rng)
        text, refprog = texts(case)
        mode = rng.choice(["complete", "partial", "partial", "derived_only"])
        try:
            data = sample_dataset(refprog, rng, rng.randint(8, 40), mode)
        except ref.TooBig:
            res["inconclusive"]["too_big"] = res["inconclusive"].get("too_big", 0) + 1
            continue
        hidden = mode != "complete" or any(len(c["heads"]) > 1 for c in case["clauses"])
        for cfgname in ("cli", "cli-log", "api", "api-noinfer"):
            primary = cfgname.startswith("cli") and not case["sub_unit"]
            pool = ("primary:" if primary else "secondary:") + cfgname
            for k in range(shard["ninit"]):
                seed = sub(shard["seed"], "init", i, cfgname, k)
                adv = 0.3 if k == shard["ninit"] - 1 else 0.0
                try:
                    lls, nw = run_one(case, data, mode, cfgname, seed, adv, stats)
                    res["evaluations"] += 1
                    res["simulated_time"]["em_steps"] += len(lls)
                    res["pools"][pool] = res["pools"].get(pool, 0) + 1
                    if len(lls) >= 3 and hidden:
                        res["nontrivial"].append(digest((text, data, cfgname, seed)))
                    res["traces"].append(digest([round(x, 9) for x in lls]))
                    if not res["samples"]:
                        res["samples"].append({"program": text, "mode": mode, "examples": data[:4], "n_examples": len(data), "config": cfgname,
                                               "log_likelihoods": lls})
                except Bad as b:
                    res["evaluations"] += 1
                    sig = "%s:%s" % (b.sig, "primary" if primary else "secondary")
                    m = {"signature": sig, "kind": b.sig, "config": cfgname, "sub_unit": case["sub_unit"], "mode": mode, "primary": primary,
                         "multi_head_ad": any(len(c["heads"]) > 1 for c in case["clauses"])}
                    owner = DC.owner_of(ID, m)
                    key = (sig, cfgname)
                    if owner is None and key in seen:
                        continue
                    seen.add(key)
                    v = {"signature": sig, "summary": b.why[:400], "match": m,
                         "replay": {"case": case, "data": data, "mode": mode, "config": cfgname, "seed": seed, "adversarial": adv,
                                    "program_text": text, "case_digest": digest((text, data, cfgname, seed))}}
                    if owner is not None:
                        v["absorb_key"] = "absorbed:%s:%s" % (owner, sig)
                    res["violations"].append(v)
                except (PL.StepBudget, PL.CycleBreakBudget):
                    res["inconclusive"]["budget"] = res["inconclusive"].get("budget", 0) + 1
                except Exception as e:
                    o = PL.outcome_of_exception(e)
                    if not o.get("site"):
                        raise
                    primary_s = "primary" if primary else "secondary"
                    sig = "lfi-%s:%s@%s:%s" % (o["kind"], o["cls"], (o.get("site") or ["?"])[0].split(" | ")[0], primary_s)
                    if (sig, cfgname) in seen:
                        continue
                    seen.add((sig, cfgname))
                    res["violations"].append({"signature": sig, "summary": ("%s %s" % (sig, o.get("msg")))[:300],
                                              "match": {"signature": sig, "kind": "crash", "config": cfgname, "sub_unit": case["sub_unit"], "mode": mode,
                                                        "primary": primary, "site": o.get("site"), "msg": (o.get("msg") or "")[:80]},
                                              "replay": {"case": case, "data": data, "mode": mode, "config": cfgname, "seed": seed, "adversarial": adv,
                                                         "program_text": text, "case_digest": digest((text, data, cfgname, seed))}})
    res["faults_injected"]["adversarial_init"] = stats.get("adversarial_init", 0)
    res["probes"] = {"init_draws": stats.get("init_draws", 0)}
    return res


def replay(doc):
    case, data, mode, cfgname = doc["case"], [[tuple(x) for x in ex] for ex in doc["data"]], doc["mode"], doc["config"]
    primary = cfgname.startswith("cli") and not case["sub_unit"]
    base = {"config": cfgname, "sub_unit": case["sub_unit"], "mode": mode, "primary": primary,
            "multi_head_ad": any(len(c["heads"]) > 1 for c in case["clauses"])}
    try:
        run_one(case, data, mode, cfgname, doc["seed"], doc.get("adversarial", 0.0))
    except Bad as b:
        sig = "%s:%s" % (b.sig, "primary" if primary else "secondary")
        return [{"signature": sig, "summary": b.why[:400], "match": dict(base, signature=sig, kind=b.sig), "replay": dict(doc)}]
    except Exception as e:
        o = PL.outcome_of_exception(e)
        if not o.get("site"):
            raise
        sig = "lfi-%s:%s@%s:%s" % (o["kind"], o["cls"], (o.get("site") or ["?"])[0].split(" | ")[0], "primary" if primary else "secondary")
        return [{"signature": sig, "summary": sig, "match": dict(base, signature=sig, kind="crash", site=o.get("site"), msg=(o.get("msg") or "")[:80]),
                 "replay": dict(doc)}]
    return []
