"""C08 — a query's answer does not depend on what else was grounded before it.

History simulation on shared mutable state: one prepared ClauseDB shared by every operation of a
history, several target ground programs (each with its tabling cache `_cache`), several engine
objects. Ops: ground a query / an evidence atom into a target, engine.query on the database,
ground_all into a new target, new target, new engine; after every op the touched target is evaluated
and compared with the *fresh-run oracle*: new engine, new database prepared from the text, new
target, one query plus the target's evidence.

Faults (separate configuration): a query that raises during grounding (non-ground probabilistic
fact, arithmetic error, unknown clause - after having done real work on the shared database and the
target) and a query interrupted by the virtual alarm at a seeded simulated time. The model then
discards the engine and the target of that op; the database stays shared and every later op must
still agree with the fresh oracle.
"""
import json
import os

from problog.engine import DefaultEngine
from problog.formula import LogicFormula
from problog.logic import Term, Var, Constant
from problog.program import PrologString
from problog import get_evaluatable

from sim import gen, lfeval
from sim import pipeline as PL
from sim import diffcheck as DC
from sim.alarm import Alarm
from sim.cases import make_case
from sim.minimize import ddmin
from sim.seeds import sub, stream, digest

ID = "C08"
WALL_S = {"quick": 300, "thorough": 3300}

META = {
    "rule": "one case = (generated program, seeded history of 3-12 operations on one shared prepared database, up to 3 targets and 3 engines). "
            "After every operation the touched target is evaluated and compared, query by query, with fresh single-query runs that use the same evidence. "
            "non-trivial = at least 3 operations touched shared state (grounded into an already used target or reused an engine on the shared database); "
            "distinct = new (program digest, op-list digest)",
    "trace_measure": "digest of the sequence of (op, outcome kind) pairs of the history",
    "components": {"real": ["ClauseDBEngine.ground / query / ground_all", "StackBasedEngine", "DefineCache on the target", "ClauseDB + ClauseIndex (shared)",
                            "LogicFormula", "d-DNNF pipeline (fraction of histories) / in-process evaluator"],
                   "stub": [], "simulated": ["history generator", "virtual alarm (line-count clock) interrupting a grounding", "failing queries"]},
    "assumptions": [
        "after a failed or interrupted grounding the engine and the target of that operation are discarded (the statement promises nothing about a half-built ground program); the database stays shared",
        "fresh-run oracle = the same real code on fresh objects; agreement of both with the reference semantics is not judged here",
    ],
}

POISON = """0.5::poison_ng(X).
poison_arith :- X is foo + 1, X > 0.
poison_unknown :- poison_undefined_zzz(a).
"""


def atom_term(atom, negated=False):
    args = []
    for a in atom[1]:
        if "(" in a:  # compound argument of a wrapper query, e.g. s(a) or s(Y)
            args.append(Term.from_string(a))
        else:
            args.append(Var(a) if gen.is_var(a) else Term(a))
    t = Term(atom[0], *args)
    return -t if negated else t


def candidates(prog, rng, wrng=None):
    """Candidate queries (ground and non-ground) and evidence literals for a program."""
    sigs = sorted(set((h[0], len(h[1])) for c in prog["clauses"] for _p, h in c["heads"] if h[0] != "dom"))
    preds = dict(sigs)  # name -> arity (last one wins for overloaded names; `sigs` keeps all)
    names = sorted(preds)
    consts = prog["consts"]
    Q = []
    for _ in range(6):
        n, ar = rng.choice(sigs)
        r = rng.random()
        if ar and r < 0.35:
            args = [rng.choice(["X", "Y"][:ar]) if rng.random() < 0.7 else rng.choice(consts) for _ in range(ar)]
            if ar == 2 and rng.random() < 0.3:
                args = ["X", "X"]
        else:
            args = [rng.choice(consts) for _ in range(ar)]
        q = [n, args]
        if q not in Q:
            Q.append(q)
    # list-collecting helpers (all/3, findall/3 ground their goal through uncached helper predicates of the engine)
    overloaded = set(n for n, _a in sigs if sum(1 for m, _b in sigs if m == n) > 1)
    unary = [n for n, a in sigs if a == 1 and n.startswith("f") and n not in overloaded]  # base predicates only: no recursion below the collector
    for j, n in enumerate(unary[:2]):
        Q.append(["zzall_%s" % n, ["L"]])
        if rng.random() < 0.5:
            Q.append(["zzfa_%s" % n, ["L"]])
    # subquery/2,3 on ground base atoms (the builtin grounds and evaluates into a ground program of its own)
    ground_base = [[n, [rng.choice(consts) for _ in range(a)]] for n, a in sigs if n.startswith("f")]
    if ground_base and rng.random() < 0.5:
        A = rng.choice(ground_base)
        B = rng.choice(ground_base)
        Q.append(["zzsq_%d" % len(Q), ["P"], "subquery(%s, P)" % gen.atom_str(A)])
        Q.append(["zzsqe_%d" % len(Q), ["P"], "subquery(%s, P, [%s])" % (gen.atom_str(A), gen.atom_str(B))])
    # compound-term wrappers (drawn from a stream of their own, so that the rest of the case does not change): answers
    # with structure, calls with a partially bound argument and, half of the time, an answer with a variable inside
    # a compound term (zzw_p(s(_))), which the tabling cache must not index as if it were ground
    unary_all = [n for n, a in sigs if a == 1 and n not in overloaded]
    if wrng is not None and unary_all and ground_base and wrng.random() < 0.4:
        n = wrng.choice(unary_all)
        extra = gen.atom_str(wrng.choice(ground_base)) if wrng.random() < 0.6 else None
        forms = [["s(%s)" % wrng.choice(consts)], ["Y"], ["s(Y)"], ["s(%s)" % wrng.choice(consts)]]
        wrng.shuffle(forms)
        if extra:  # a non-ground call would leave a variable in the query (NonGroundQuery): call it through a 0-ary goal
            forms = [f for f in forms if "Y" not in f[0]] + [None]
            wrng.shuffle(forms)
        for args in forms[:wrng.randint(2, 4)]:
            q = ["zzwa_%s" % n, [], extra] if args is None else ["zzw_%s" % n, args, extra]
            if q not in Q:
                Q.append(q)
    E = []
    for _ in range(3):
        n, ar = rng.choice(sigs)
        a = [n, [rng.choice(consts) for _ in range(ar)]]
        if not any(e[0] == a for e in E):
            E.append([a, rng.random() < 0.6])
    return Q, E


def helper_clauses(Q):
    out = []
    for q in Q:
        if q[0].startswith("zzall_"):
            out.append("%s(L) :- all(X, %s(X), L)." % (q[0], q[0][len("zzall_"):]))
        elif q[0].startswith("zzfa_"):
            out.append("%s(L) :- findall(X, %s(X), L)." % (q[0], q[0][len("zzfa_"):]))
        elif q[0].startswith("zzsq") and len(q) > 2:
            out.append("%s(P) :- %s." % (q[0], q[2]))
        elif q[0].startswith("zzw_") or q[0].startswith("zzwa_"):
            n = q[0].split("_", 1)[1]
            lines = ["zzw_%s(s(X)) :- %s(X)." % (n, n)]
            if len(q) > 2 and q[2]:
                lines.append("zzw_%s(s(_)) :- %s." % (n, q[2]))
            if q[0].startswith("zzwa_"):
                lines.append("zzwa_%s :- zzw_%s(_)." % (n, n))
            out.extend(l for l in lines if l not in out)
    return "\n".join(out) + ("\n" if out else "")


def gen_history(rng, nq, ne, faults):
    n = rng.randint(3, 12)
    ops = []
    ntargets, nengines = 1, 1
    for _ in range(n):
        r = rng.random()
        t = rng.randrange(ntargets)
        e = rng.randrange(nengines)
        if faults and rng.random() < 0.12:
            if rng.random() < 0.5:
                ops.append(["ground_bad", t, rng.choice(["ng", "arith", "unknown", "deep_arith", "deep_ng"]), rng.randrange(nq), e])
            else:
                ops.append(["interrupt", t, rng.randrange(nq), e, round(rng.random(), 3)])
        elif r < 0.45:
            ops.append(["ground_q", t, rng.randrange(nq), e])
        elif r < 0.60 and ne:
            ops.append(["ground_e", t, rng.randrange(ne), e])
        elif r < 0.70:
            ops.append(["query", rng.randrange(nq), e])
        elif r < 0.78:
            k = rng.randint(1, 3)
            ops.append(["ground_all", sorted(set(rng.randrange(nq) for _ in range(k))),
                        sorted(set(rng.randrange(ne) for _ in range(rng.randint(0, 2)))) if ne else [],
                        rng.random() < 0.4, e])
        elif r < 0.86 and ntargets < 3:
            ops.append(["new_target"])
            ntargets += 1
        elif r < 0.92 and nengines < 3:
            ops.append(["new_engine"])
            nengines += 1
        elif faults and r < 0.955:
            ops.append(["ground_bad", t, rng.choice(["ng", "arith", "unknown", "deep_arith", "deep_ng"]), rng.randrange(nq), e])
        elif faults:
            ops.append(["interrupt", t, rng.randrange(nq), e, round(rng.random(), 3)])
        else:
            ops.append(["ground_q", t, rng.randrange(nq), e])
    return ops


class Fresh(object):
    """Fresh-run oracle with memoisation."""

    def __init__(self, base_text, Q, E):
        self.base = base_text
        self.Q, self.E = Q, E
        self.memo = {}

    def text_for(self, qis, eis):
        lines = [self.base]
        for qi in qis:
            lines.append("query(%s)." % gen.atom_str(self.Q[qi][:2]))
        for ei in eis:
            a, v = self.E[ei]
            lines.append("evidence(%s,%s)." % (gen.atom_str(a), "true" if v else "false"))
        return "\n".join(lines) + "\n"

    def outcome(self, qi, eis, propagate=False):
        key = (qi, tuple(sorted(set(eis))), propagate)
        if key not in self.memo:
            self.memo[key] = PL.run_pipeline(self.text_for([qi], key[1]), evaluator="fast", propagate_evidence=propagate)
        return self.memo[key]

    def query_answers(self, qi):
        key = ("query", qi)
        if key not in self.memo:
            try:
                eng = DefaultEngine()
                db = eng.prepare(PrologString(self.base))
                res = eng.query(db, atom_term(self.Q[qi]))
                self.memo[key] = {"kind": "ok", "answers": sorted(str(tuple(r)) for r in res)}
            except BaseException as e:  # noqa
                if isinstance(e, (KeyboardInterrupt, SystemExit)):
                    raise
                self.memo[key] = PL.outcome_of_exception(e)
        return self.memo[key]


def evaluate_target(target, real=False):
    try:
        if real:
            res = get_evaluatable().create_from(target).evaluate()
            return {"kind": "ok", "results": PL._canon_results(res, False)}
        try:
            res, _ = lfeval.evaluate_lf(target)
            return {"kind": "ok", "results": PL._canon_results(res, False)}
        except lfeval.Inconsistent:
            return {"kind": "err", "cls": "InconsistentEvidenceError", "site": []}
        except lfeval.Unsupported:
            res = get_evaluatable().create_from(target).evaluate()
            return {"kind": "ok", "results": PL._canon_results(res, False)}
    except BaseException as e:  # noqa
        if isinstance(e, (KeyboardInterrupt, SystemExit, PL.WallBudget)):
            raise
        return PL.outcome_of_exception(e)


def sides(exp, got):
    """Match fields in the convention of C03: 'faulty' is the erroring side when exactly one side errs."""
    if got["kind"] != "ok" and exp["kind"] != "ok" and got.get("cls") == "InconsistentEvidenceError":
        f, o, who = exp, got, "fresh"  # both fail: the grounding-time error is the deviation, not the evaluation-time one
    elif got["kind"] != "ok" or exp["kind"] == "ok":
        f, o, who = got, exp, "history"
    else:
        f, o, who = exp, got, "fresh"
    return {"faulty": PL.kind_tag(f), "other_side": PL.kind_tag(o), "site": f.get("site") or [], "faulty_is": who,
            "msg": (f.get("msg") or "")[:80]}


class Violation(Exception):
    def __init__(self, sig, why, extra=None):
        Exception.__init__(self, why)
        self.sig = sig
        self.why = why
        self.extra = extra or {}


def run_history(base_text, Q, E, ops, stats=None, real_final=False):
    """Executes the history against the real code and checks the invariant after every op.
    Raises Violation. Returns (shared_ops, trace)."""
    fresh = Fresh(base_text, Q, E)
    PL.CLOCK.reset(400000)
    eng0 = DefaultEngine()
    D = eng0.prepare(PrologString(base_text))
    engines = [eng0]
    targets = [LogicFormula()]
    model = [{"q": [], "e": [], "used": False}]
    shared = 0
    trace = []
    used_engine = set()

    def expect_target(t, opname, real=False):
        m = model[t]
        got = evaluate_target(targets[t], real=real)
        # expected: merge of fresh single-query runs with the target's evidence
        exp = {"kind": "ok", "results": {}}
        for qi in m["q"]:
            o = fresh.outcome(qi, m["e"])
            if o["kind"] != "ok":
                exp = o
                break
            exp["results"].update(o["results"])
        if not m["q"] and m["e"]:
            # evidence only: consistency is all that can be judged
            o = fresh.outcome(None, m["e"]) if False else PL.run_pipeline(fresh.text_for([], m["e"]), evaluator="fast")
            exp = o if o["kind"] != "ok" else exp
        if "CycleBreakBudget" in (got.get("cls"), exp.get("cls")) or got["kind"] == "budget" or exp["kind"] == "budget":
            if stats is not None:
                stats["budget"] = stats.get("budget", 0) + 1
            return
        ok, why = PL.same_outcome(exp, got)
        if not ok:
            kind = "prob" if why.startswith("probability") else ("instances" if why.startswith("instances") else "%s|%s@%s" % (
                PL.kind_tag(exp), PL.kind_tag(got), DC.short_site(got if got["kind"] != "ok" else exp)))
            raise Violation("%s:%s" % (opname, kind), "after %s on target %d: fresh %s, history %s: %s" % (
                opname, t, PL.kind_tag(exp), PL.kind_tag(got), why),
                dict(sides(exp, got), zero_prob_only=zero_prob_only(exp, got)))

    def poison(t, e):
        targets[t] = LogicFormula()
        model[t] = {"q": [], "e": [], "used": False}
        engines[e] = DefaultEngine()
        used_engine.discard(e)

    for idx, op in enumerate(ops):
        k = op[0]
        PL.CLOCK.reset(400000)
        try:
            if k == "new_target":
                if len(targets) < 3:
                    targets.append(LogicFormula())
                    model.append({"q": [], "e": [], "used": False})
                trace.append(k)
                continue
            if k == "new_engine":
                if len(engines) < 3:
                    engines.append(DefaultEngine())
                trace.append(k)
                continue
            if k in ("ground_q", "ground_e", "ground_bad", "interrupt"):
                t = op[1] % len(targets)
                e = op[-1 if k != "interrupt" else 3] % len(engines)
                if model[t]["used"] or e in used_engine:
                    shared += 1
                eng = engines[e]
                if k == "ground_q":
                    qi = op[2] % len(Q)
                    f = fresh.outcome(qi, [])
                    try:
                        eng.ground(D, atom_term(Q[qi]), targets[t], label=LogicFormula.LABEL_QUERY)
                        raised = None
                    except (PL.StepBudget, PL.CycleBreakBudget):
                        poison(t, e)
                        trace.append("budget")
                        continue
                    except Exception as ex:
                        raised = PL.outcome_of_exception(ex)
                    grounding_error = f["kind"] in ("err", "crash") and f.get("cls") != "InconsistentEvidenceError"
                    if raised is not None:
                        if f["kind"] != "ok" and raised.get("cls") == f.get("cls"):
                            poison(t, e)  # legitimately failing query
                            trace.append("ground_q:raise")
                            continue
                        raise Violation("ground_q:%s|%s@%s" % (PL.kind_tag(f), PL.kind_tag(raised), DC.short_site(raised)),
                                        "grounding %s into a used target raised %s, alone it gives %s" % (
                                            gen.atom_str(Q[qi][:2]), PL.kind_tag(raised), PL.kind_tag(f)),
                                        sides(f, raised))
                    if grounding_error:
                        raise Violation("ground_q:%s|ok@%s" % (PL.kind_tag(f), DC.short_site(f)),
                                        "grounding %s alone raises %s but succeeded in the history" % (gen.atom_str(Q[qi][:2]), PL.kind_tag(f)),
                                        sides(f, {"kind": "ok", "results": {}}))
                    model[t]["q"].append(qi)
                    model[t]["used"] = True
                    used_engine.add(e)
                    expect_target(t, k)
                    trace.append("ground_q:ok")
                elif k == "ground_e":
                    ei = op[2] % len(E)
                    a, v = E[ei]
                    lab = LogicFormula.LABEL_EVIDENCE_POS if v else LogicFormula.LABEL_EVIDENCE_NEG
                    try:
                        eng.ground(D, atom_term(a), targets[t], label=lab, is_root=True)
                    except (PL.StepBudget, PL.CycleBreakBudget):
                        poison(t, e)
                        trace.append("budget")
                        continue
                    except Exception as ex:
                        raised = PL.outcome_of_exception(ex)
                        f = PL.run_pipeline(fresh.text_for([], [ei]), evaluator="fast")
                        if f["kind"] != "ok" and f.get("cls") == raised.get("cls"):
                            poison(t, e)
                            trace.append("ground_e:raise")
                            continue
                        raise Violation("ground_e:%s|%s@%s" % (PL.kind_tag(f), PL.kind_tag(raised), DC.short_site(raised)),
                                        "grounding evidence %s raised %s, alone %s" % (gen.atom_str(a), PL.kind_tag(raised), PL.kind_tag(f)),
                                        sides(f, raised))
                    if ei not in model[t]["e"]:
                        model[t]["e"].append(ei)
                    elif False:
                        pass
                    model[t]["used"] = True
                    used_engine.add(e)
                    expect_target(t, k)
                    trace.append("ground_e:ok")
                elif k == "ground_bad":
                    which, qi = op[2], op[3] % len(Q)
                    goal = {"ng": Term("poison_ng", Var("Y")), "arith": Term("poison_arith"), "unknown": Term("poison_unknown"),
                            "deep_arith": Term("poison_deep_arith_%d" % qi), "deep_ng": Term("poison_deep_ng_%d" % qi)}[which]
                    try:
                        eng.ground(D, goal, targets[t], label=LogicFormula.LABEL_QUERY)
                        finished = True
                    except (PL.StepBudget, PL.CycleBreakBudget):
                        finished = False
                    except Exception:
                        finished = False
                    if stats is not None:
                        stats["failing_op"] = stats.get("failing_op", 0) + (0 if finished else 1)
                    # whether it raised or (deep variants whose real goal has no answer) finished: discard
                    poison(t, e)
                    trace.append("ground_bad:%s" % ("finished" if finished else "raised"))
                else:  # interrupt
                    qi = op[2] % len(Q)
                    frac = op[4]
                    # horizon: the same query on fresh objects
                    with Alarm() as cal:
                        try:
                            e2 = DefaultEngine()
                            e2.ground(e2.prepare(PrologString(base_text)), atom_term(Q[qi]), LogicFormula(), label=LogicFormula.LABEL_QUERY)
                        except Exception:
                            pass
                    at = 1 + int(frac * max(cal.count - 1, 1))
                    alarm = Alarm(at=at)
                    try:
                        with alarm:
                            eng.ground(D, atom_term(Q[qi]), targets[t], label=LogicFormula.LABEL_QUERY)
                        fired = alarm.fired
                    except KeyboardInterrupt:
                        fired = True
                    except (PL.StepBudget, PL.CycleBreakBudget):
                        fired = True
                    except Exception:
                        fired = alarm.fired or True
                    if stats is not None:
                        stats["interrupt"] = stats.get("interrupt", 0) + (1 if alarm.fired else 0)
                    poison(t, e)
                    trace.append("interrupt:%s" % ("fired" if alarm.fired else "late"))
                continue
            if k == "query":
                qi = op[1] % len(Q)
                e = op[2] % len(engines)
                if e in used_engine:
                    shared += 1
                f = fresh.query_answers(qi)
                try:
                    res = engines[e].query(D, atom_term(Q[qi]))
                    got = {"kind": "ok", "answers": sorted(str(tuple(r)) for r in res)}
                except (PL.StepBudget, PL.CycleBreakBudget):
                    engines[e] = DefaultEngine()
                    continue
                except Exception as ex:
                    got = PL.outcome_of_exception(ex)
                    engines[e] = DefaultEngine()
                used_engine.add(e)
                if got["kind"] != f["kind"] or got.get("answers") != f.get("answers") or got.get("cls") != f.get("cls"):
                    if "budget" in (got["kind"], f["kind"]):
                        continue
                    raise Violation("query:%s|%s" % (PL.kind_tag(f) if f["kind"] != "ok" else "ok", PL.kind_tag(got) if got["kind"] != "ok" else "answers"),
                                    "engine.query(%s) on the shared database: fresh %s, history %s" % (
                                        gen.atom_str(Q[qi][:2]), f.get("answers", PL.kind_tag(f)), got.get("answers", PL.kind_tag(got))),
                                    sides(f, got))
                trace.append("query")
                continue
            if k == "ground_all":
                qis, eis, prop, e = [q % len(Q) for q in op[1]], [x % len(E) for x in op[2]] if E else [], op[3], op[4] % len(engines)
                if e in used_engine:
                    shared += 1
                f = PL.run_pipeline(fresh.text_for(qis, eis), evaluator="fast", propagate_evidence=prop)
                try:
                    tgt = engines[e].ground_all(D, queries=[atom_term(Q[q]) for q in qis],
                                                evidence=[(atom_term(E[x][0]), Term("true") if E[x][1] else Term("false")) for x in eis],
                                                propagate_evidence=prop)
                    got = evaluate_target(tgt)
                except (PL.StepBudget, PL.CycleBreakBudget):
                    engines[e] = DefaultEngine()
                    continue
                except Exception as ex:
                    got = PL.outcome_of_exception(ex)
                    engines[e] = DefaultEngine()
                used_engine.add(e)
                if "budget" in (got["kind"], f["kind"]):
                    continue
                ok, why = PL.same_outcome(f, got)
                if not ok:
                    kind = "prob" if why.startswith("probability") else ("instances" if why.startswith("instances") else "%s|%s@%s" % (
                        PL.kind_tag(f), PL.kind_tag(got), DC.short_site(got if got["kind"] != "ok" else f)))
                    raise Violation("ground_all:%s" % kind, "ground_all(%s | %s, propagate=%s) on the shared database: %s" % (qis, eis, prop, why),
                                    dict(sides(f, got), zero_prob_only=zero_prob_only(f, got)))
                trace.append("ground_all")
                continue
        finally:
            PL.CLOCK.budget = None
            PL.CLOCK.cb_budget = None
    if real_final:
        PL.CLOCK.reset(400000)
        try:
            for t in range(len(targets)):
                if model[t]["q"]:
                    expect_target(t, "evaluate_real", real=True)
        finally:
            PL.CLOCK.budget = None
            PL.CLOCK.cb_budget = None
    return shared, digest(trace)


def zero_prob_only(a, b):
    if a.get("kind") != "ok" or b.get("kind") != "ok":
        return False
    ra, rb = a["results"], b["results"]
    for k in set(ra) ^ set(rb):
        if abs(ra.get(k, rb.get(k))) > 1e-12:
            return False
    return all(abs(ra[k] - rb[k]) <= 1e-9 for k in set(ra) & set(rb))


def base_text_of(prog, Q, faults):
    text = gen.program_text(prog, with_queries=False, with_evidence=False)
    defined = set(h[1][0] for cl in prog["clauses"] for h in cl["heads"])
    text += helper_clauses([q for q in Q if q[0].split("_", 1)[-1] in defined or q[0].startswith("zzsq")])
    if faults:
        text += POISON
        for qi, q in enumerate(Q):
            text += "poison_deep_arith_%d :- %s, poison_arith.\n" % (qi, gen.atom_str(q[:2]))
            text += "poison_deep_ng_%d :- %s, poison_ng(Y).\n" % (qi, gen.atom_str(q[:2]))
    return text


def run_case(prog, Q, E, ops, faults, stats=None, real_final=False):
    """Returns (violation dict or None, shared, trace)."""
    text = base_text_of(prog, Q, faults)
    try:
        with PL.wall_guard(240):
            shared, trace = run_history(text, Q, E, ops, stats, real_final)
        return None, shared, trace
    except Violation as v:
        return v, 0, None
    except PL.WallBudget:
        if stats is not None:
            stats["wall_budget"] = stats.get("wall_budget", 0) + 1
        return None, 0, "wall-budget"


def build(prog, Q, E, ops, faults, v, tags):
    sig = v.sig

    def fails_ops(o):
        vv, _, _ = run_case(prog, Q, E, o, faults)
        return vv is not None and vv.sig == sig

    ops2 = ddmin(ops, fails_ops, max_tests=150)

    def sig_of_text(text):
        try:
            p = gen.parse_text(text)
        except Exception:
            return None
        vv, _, _ = run_case(p, Q, E, ops2, faults)
        return vv.sig if vv is not None else None

    small = DC.minimise_program(dict(prog, queries=[], evidence=[]), sig_of_text, sig, max_s=40, max_tests=250, require_query=False)
    vv, _, _ = run_case(small, Q, E, ops2, faults)
    if vv is None or vv.sig != sig:
        small = prog
        vv, _, _ = run_case(small, Q, E, ops2, faults)
        if vv is None:
            vv, ops2 = v, ops
    ops3 = ddmin(ops2, lambda o: (lambda r: r is not None and r.sig == sig)(run_case(small, Q, E, o, faults)[0]), max_tests=100)
    vv2, _, _ = run_case(small, Q, E, ops3, faults)
    if vv2 is not None and vv2.sig == sig:
        vv, ops2 = vv2, ops3
    text = gen.program_text(small, with_queries=False, with_evidence=False)
    tags2 = tags_for(small, Q, E) or tags
    m = {"signature": sig, "tags": tags2, "op": sig.split(":", 1)[0], "faults": faults}
    m.update(vv.extra)
    return {"signature": sig, "summary": vv.why[:300], "match": m,
            "replay": {"program_text": text, "Q": Q, "E": E, "ops": ops2, "faults": faults, "tags": tags2,
                       "case_digest": digest((text, Q, E, ops2))}}


def strip_dummy(text):
    return "\n".join(l for l in text.splitlines() if not l.startswith("query(")) + "\n"


def tags_for(prog, Q, E):
    from sim import ref
    try:
        p = dict(prog, queries=[q[:2] for q in Q], evidence=[[a, v, 0] for a, v in E])
        p["consts"] = sorted(set(p.get("consts", [])) | {"a"})
        if not gen.is_valid(p):
            defined = set((h[1][0], len(h[1][1])) for c in p["clauses"] for h in c["heads"])
            p["queries"] = [q for q in p["queries"] if (q[0], len(q[1])) in defined]
            p["evidence"] = [e for e in p["evidence"] if (e[0][0], len(e[0][1])) in defined]
        return ref.Ref(p).tags()
    except Exception:
        return None


def new_result():
    return {"evaluations": 0, "nontrivial": [], "traces": [], "violations": [], "samples": [],
            "simulated_time": {"ops": 0}, "faults_injected": {"failing_op": 0, "interrupt": 0},
            "probes": {"real_final_evaluations": 0}, "pools": {}, "inconclusive": {}}


def shards(tier, seed, scale=1.0):
    nsh, per = {"quick": (24, 70), "thorough": (255, 125)}[tier]
    per = max(1, int(per * scale))
    out = []
    for s in range(nsh):
        out.append({"name": "hist-%d" % s, "seed": sub(seed, ID, s), "cases": per, "faults": s % 3 == 2,
                    "wall_limit_s": WALL_S[tier]})
    return out


def run_shard(shard):
    res = new_result()
    open_tags = DC.load_open_tags(ID)
    faults = shard["faults"]
    stats = {}
    seen = set()
    for i in range(shard["cases"]):
        case = make_case(shard["seed"], i)
        if case is None:
            res["inconclusive"]["discarded_oversize"] = res["inconclusive"].get("discarded_oversize", 0) + 1
            continue
        rng = stream(shard["seed"], "hist", i)
        prog = case["prog"]
        Q, E = candidates(prog, rng, stream(shard["seed"], "wrap", i))
        tags = tags_for(prog, Q, E) or case["tags"]
        pool = ("frontier" if (set(tags) & open_tags) else "core") + ("+faults" if faults else "")
        nh = 3
        for h in range(nh):
            ops = gen_history(rng, len(Q), len(E), faults)
            real_final = (h == 0 and i % 4 == 0)
            v, shared, trace = run_case(prog, Q, E, ops, faults, stats, real_final)
            res["evaluations"] += 1
            res["simulated_time"]["ops"] += len(ops)
            res["pools"][pool] = res["pools"].get(pool, 0) + 1
            res["probes"]["real_final_evaluations"] += 1 if real_final else 0
            if v is None:
                if shared >= 3:
                    res["nontrivial"].append(digest((case["digest"], ops)))
                res["traces"].append(trace)
                if not res["samples"]:
                    res["samples"].append({"program": gen.program_text(prog, False, False), "queries": [gen.atom_str(q[:2]) for q in Q],
                                           "evidence": [[gen.atom_str(a), v2] for a, v2 in E], "ops": ops, "verdict": "ok"})
                continue
            m = {"signature": v.sig, "tags": tags, "op": v.sig.split(":", 1)[0], "faults": faults}
            m.update(v.extra)
            owner = DC.owner_of(ID, m)
            if owner is not None:
                key = "absorbed:%s:%s" % (owner, v.sig)
                for r in res["violations"]:
                    if r.get("absorb_key") == key:
                        r["count_more"] = r.get("count_more", 0) + 1
                        break
                else:
                    res["violations"].append({"signature": v.sig, "summary": v.why[:300], "match": m, "absorb_key": key, "count_more": 0,
                                              "replay": {"program_text": gen.program_text(prog, False, False), "Q": Q, "E": E, "ops": ops,
                                                         "faults": faults, "case_digest": digest((case["digest"], ops))}})
                continue
            if v.sig in seen:
                continue
            seen.add(v.sig)
            res["violations"].append(build(prog, Q, E, ops, faults, v, tags))
    res["faults_injected"]["failing_op"] = stats.get("failing_op", 0)
    res["faults_injected"]["interrupt"] = stats.get("interrupt", 0)
    if stats.get("budget"):
        res["inconclusive"]["budget"] = stats["budget"]
    return res


def replay(doc):
    prog = gen.parse_text(doc["program_text"])
    Q, E, ops, faults = doc["Q"], [tuple(e) if False else e for e in doc["E"]], doc["ops"], doc.get("faults", False)
    v, _, _ = run_case(prog, Q, E, ops, faults)
    if v is None:
        return []
    tags = tags_for(prog, Q, E) or doc.get("tags", [])
    m = {"signature": v.sig, "tags": tags, "op": v.sig.split(":", 1)[0], "faults": faults}
    m.update(v.extra)
    return [{"signature": v.sig, "summary": v.why[:300], "match": m, "replay": dict(doc)}]
