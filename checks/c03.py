"""C03 — grounding result independent of the order sibling goals are explored.

Real default (buffered) engine + full pipeline; the simulator owns the order of every all-'e'
batch appended to a MessageFIFO (guarded repo hook). One run = (program, schedule policy, seed);
oracle = outcome under the identity schedule. Replay file = program text + scripted decision log.
"""
import glob
import json
import os

from sim import gen
from sim import pipeline as PL
from sim import diffcheck as DC
from sim.cases import make_case
from sim.seeds import sub, stream, digest

ID = "C03"
WALL_S = {"quick": 240, "thorough": 3300}
REPO = os.environ.get("VERIF_REPO", "/repo")

CORPUS_EXCLUDE = {
    "findall6.pl": "queries p([1|_]): pattern-matches a findall list, so reported instances legitimately depend on element order",
}

META = {
    "rule": "one case = (program, schedule policy, policy seed): the real default pipeline run under a scheduler that permutes "
            "all-'e' sibling batches, compared with the identity schedule of the same program. Programs: repository corpus test/*.pl, "
            "hand-written cycle zoo, seeded generated stratified programs (core pool / frontier pool = carries a tag of an open finding). "
            "non-trivial = the scheduler made at least one non-identity decision; distinct = new (program digest, decision-log digest)",
    "trace_measure": "crc32 over the sequence of popped engine messages (act, target, parent) of the run",
    "components": {"real": ["StackBasedEngine (buffered)", "ClauseDB", "LogicFormula", "cycle breaking", "CNF", "dsharp (subprocess)",
                            "d-DNNF evaluator"],
                   "stub": [], "simulated": ["message-batch scheduler (reorder)", "step clock / budget (messages popped)"]},
    "assumptions": [
        "lists built by findall/all/aggregates are compared up to element order (corpus files that mention them only)",
        "reorder is the only network fault injected: the engine's transport neither drops nor duplicates",
        "a run that exceeds the step budget on both sides is inconclusive, on one side only it is a termination difference",
    ],
}

POLICIES_QUICK = ["reverse", "rotate", "uniform", "uniform", "uniform15", "static", "one-shot"]
LISTY = ("findall", "all(", "all_or_none", "aggregate", "sum(", "max(", "min(", "avg(", "count(", "list")


def policy_specs(rng, k, nbatches):
    out = []
    names = list(POLICIES_QUICK)
    while len(names) < k:
        names.append(rng.choice(["uniform", "uniform", "uniform50", "uniform15", "static", "one-shot", "one-shot"]))
    for n in names[:k]:
        seed = rng.getrandbits(48)
        if n == "uniform":
            out.append({"name": "uniform", "p": 1.0, "seed": seed})
        elif n == "uniform50":
            out.append({"name": "uniform", "p": 0.5, "seed": seed})
        elif n == "uniform15":
            out.append({"name": "uniform", "p": 0.15, "seed": seed})
        elif n == "one-shot":
            out.append({"name": "one-shot", "seed": seed, "at": rng.randrange(max(1, nbatches))})
        elif n == "static":
            out.append({"name": "static", "seed": seed})
        else:
            out.append({"name": n})
    return out


def corpus_files():
    files = sorted(glob.glob(os.path.join(REPO, "test", "*.pl")))
    zoo = sorted(glob.glob(os.path.join(DC.VERIF, "corpus", "*.pl")))
    return [f for f in files if os.path.basename(f) not in CORPUS_EXCLUDE] + zoo


def file_model(path):
    from problog.program import PrologFile, DefaultPrologParser, ExtendedPrologFactory

    return lambda: PrologFile(path, parser=DefaultPrologParser(ExtendedPrologFactory()))


PROPAGATE = [False]  # per-program configuration: ground_all(propagate_evidence=...) as `problog` (CLI) does by default


def run_one(text, spec, model=None, sort_lists=False, budget=200000, evaluator="real"):
    sched = DC.make_sched(spec)
    o = PL.run_pipeline(text, sched=sched, budget=budget, sort_lists=sort_lists, model=model, evaluator=evaluator,
                        propagate_evidence=PROPAGATE[0])
    return o, sched


def comparable(base, o):
    """Pick the pair of outcomes to compare: real with real, otherwise fast with fast."""
    if o.get("evaluator") == "fast":
        return (base.get("fast") or base), o
    return base, o


def explore(res, text, tags, rng, k, pool, model=None, sort_lists=False, prog=None, name=None, open_tags=()):
    PROPAGATE[0] = ("evidence(" in text) and rng.random() < 0.5
    res["pools"]["propagate_evidence"] = res["pools"].get("propagate_evidence", 0) + (1 if PROPAGATE[0] else 0)
    try:
        return _explore(res, text, tags, rng, k, pool, model, sort_lists, prog, name, open_tags)
    finally:
        PROPAGATE[0] = False


def _explore(res, text, tags, rng, k, pool, model=None, sort_lists=False, prog=None, name=None, open_tags=()):
    base, s0 = run_one(text, {"name": "identity"}, model, sort_lists, evaluator="both")
    res["evaluations"] += 1
    res["simulated_time"]["messages"] += base["steps"]
    res["traces"].append(base["trace"])
    res["pools"][pool] = res["pools"].get(pool, 0) + 1
    if "fast_mismatch" in base:
        res["inconclusive"]["fast_vs_real_mismatch"] = res["inconclusive"].get("fast_vs_real_mismatch", 0) + 1
        res.setdefault("notes", []).append("fast/real evaluator mismatch on %s: %s" % (name or gen.program_digest(prog), base["fast_mismatch"]))
    budget = max(200000, 500 * base["steps"]) if base["kind"] != "budget" else 200000
    specs = policy_specs(rng, k, s0.nbatches)
    real_idx = rng.randrange(len(specs)) if specs else -1
    viols = []
    for idx, spec in enumerate(specs):
        o, sched = run_one(text, spec, model, sort_lists, budget, evaluator="both" if idx == real_idx else "fast")
        res["evaluations"] += 1
        res["probes"]["real_pipeline_runs"] += 1 if o.get("evaluator") != "fast" else 0
        res["simulated_time"]["messages"] += o["steps"]
        res["faults_injected"]["reorder"] += len(sched.decisions)
        res["probes"]["batches_seen"] += sched.nbatches
        if sched.decisions:
            res["nontrivial"].append(digest((name or gen.program_digest(prog), sched.decisions)))
        res["traces"].append(o["trace"])
        if "fast_mismatch" in o:
            res["inconclusive"]["fast_vs_real_mismatch"] = res["inconclusive"].get("fast_vs_real_mismatch", 0) + 1
        if base["kind"] == "budget" and o["kind"] == "budget":
            res["inconclusive"]["budget_both"] = res["inconclusive"].get("budget_both", 0) + 1
            continue
        if "CycleBreakBudget" in (base.get("cls"), o.get("cls")):
            res["inconclusive"]["cycle_break_budget"] = res["inconclusive"].get("cycle_break_budget", 0) + 1
        b2, o2 = comparable(base, o)
        sigt = DC.diff_signature(b2, o2)
        if sigt is None:
            continue
        if o.get("evaluator") == "fast":
            # confirm with the real pipeline on both sides before anything is reported
            sig_r, sigt_r, sched_r, base_r, o_r = pair_signature(text, spec, model, sort_lists)
            if sigt_r is None:
                res["inconclusive"]["fast_diff_not_confirmed_by_real"] = res["inconclusive"].get("fast_diff_not_confirmed_by_real", 0) + 1
                res.setdefault("notes", []).append("difference seen by the in-process evaluator but not by the real pipeline: %s %s" % (name or gen.program_digest(prog), sigt[1]))
                continue
            sigt, o = sigt_r, o_r
            viols.append((sigt, spec, sched_r.decisions, o, base_r))
        else:
            viols.append((sigt, spec, sched.decisions, o, base))
    if len(res["samples"]) < 1 and specs:
        res["samples"].append({"program": text if len(text) < 1500 else (name or text[:1500]), "tags": tags,
                               "baseline": {k2: base.get(k2) for k2 in ("kind", "results", "cls", "steps")},
                               "schedule": specs[-1], "decisions": sched.decisions[:10],
                               "outcome": {k2: o.get(k2) for k2 in ("kind", "results", "cls", "steps")}})
    # report one violation per signature per program; cases attributed to an open finding are counted,
    # not minimised (the parent applies the same matching again and prints the KNOWN-FINDING line)
    seen = set()
    for sigt, spec, decisions, o, base in viols:
        sig = sigt[0]
        if sig in seen:
            continue
        seen.add(sig)
        side = "permuted" if sigt[2] is o else "baseline"
        m = DC.match_dict(sigt, tags, side)
        m["file"] = name
        m["propagate_evidence"] = PROPAGATE[0]
        if prog is not None and sig in ("prob", "instances"):
            m["vanishes_single_query"] = vanishes_single_query(prog, spec, sort_lists)
            m["zero_prob_only"] = zero_prob_only(base, o)
        owner = DC.owner_of(ID, m)
        if owner is not None:
            key = "absorbed:%s:%s" % (owner, sig)
            for v in res["violations"]:
                if v.get("absorb_key") == key:
                    v["count_more"] = v.get("count_more", 0) + 1
                    break
            else:
                res["violations"].append({"signature": sig, "summary": "%s: %s" % (sig, sigt[1]), "match": m,
                                          "absorb_key": key, "count_more": 0,
                                          "replay": {"program_text": text if prog is not None else None, "file": name, "propagate_evidence": PROPAGATE[0],
                                                     "decisions": decisions, "tags": tags, "sort_lists": sort_lists,
                                                     "case_digest": digest((text, decisions))}})
            continue
        res["violations"].append(build_violation(sigt, spec, decisions, text, tags, prog, model, sort_lists, name, base, o))


def pair_signature(text, spec, model, sort_lists):
    base, _ = run_one(text, {"name": "identity"}, model, sort_lists)
    budget = max(200000, 500 * base["steps"]) if base["kind"] != "budget" else 200000
    o, sched = run_one(text, spec, model, sort_lists, budget)
    sigt = DC.diff_signature(base, o)
    return (sigt[0] if sigt else None), sigt, sched, base, o


def build_violation(sigt, spec, decisions, text, tags, prog, model, sort_lists, name, base, o):
    sig = sigt[0]
    small_text = text
    if prog is not None:
        small = DC.minimise_program(prog, lambda t: pair_signature(t, spec, None, sort_lists)[0], sig)
        small_text = gen.program_text(small)
        s2, sigt2, sched2, base2, o2 = pair_signature(small_text, spec, None, sort_lists)
        if s2 == sig:
            sigt, decisions, base, o = sigt2, sched2.decisions, base2, o2
        else:
            small_text = text
    # minimise the decision log with the scripted scheduler
    def run_with(d):
        return pair_signature(small_text, {"name": "scripted", "decisions": d}, model, sort_lists)[0]
    dec = DC.minimise_decisions(decisions, run_with, sig)
    s3, sigt3, _s, base3, o3 = pair_signature(small_text, {"name": "scripted", "decisions": dec}, model, sort_lists)
    if s3 == sig:
        sigt, base, o = sigt3, base3, o3
    else:
        dec = decisions
    side = "permuted" if sigt[2] is o else "baseline"
    extra = {}
    if prog is not None and small_text is not text:
        try:
            from sim import ref
            tags = ref.Ref(small).tags()
        except Exception:
            pass
    if prog is not None and sig in ("prob", "instances"):
        extra["vanishes_single_query"] = vanishes_single_query(small if small_text is not text else prog, {"name": "scripted", "decisions": dec}, sort_lists)
        extra["zero_prob_only"] = zero_prob_only(base, o)
    summary = "%s: %s" % (sig, sigt[1])
    m = DC.match_dict(sigt, tags, side)
    m["file"] = name
    m["propagate_evidence"] = PROPAGATE[0]
    m.update(extra)
    return {
        "signature": sig, "summary": summary[:300],
        "match": m,
        "replay": {"program_text": small_text if prog is not None else None, "file": name, "sort_lists": sort_lists,
                   "decisions": dec, "tags": tags, "original_policy": spec, "match_extra": extra, "propagate_evidence": PROPAGATE[0],
                   "baseline": {k: base.get(k) for k in ("kind", "results", "cls", "site")},
                   "permuted": {k: o.get(k) for k in ("kind", "results", "cls", "site")},
                   "case_digest": digest((small_text if prog is not None else name, dec))},
    }


def vanishes_single_query(prog, spec, sort_lists):
    """True iff, for every single query of the program taken alone (same evidence), the two
    schedules agree: the difference then comes from grounding several queries into one target."""
    if len(prog["queries"]) < 2:
        return False
    for q in prog["queries"]:
        p = dict(prog)
        p["queries"] = [q]
        if pair_signature(gen.program_text(p), spec, None, sort_lists)[0] is not None:
            return False
    return True


def zero_prob_only(base, o):
    """True iff the instance sets differ only by instances of probability 0 and common instances agree."""
    if base["kind"] != "ok" or o["kind"] != "ok":
        return False
    ra, rb = base["results"], o["results"]
    for k in set(ra) ^ set(rb):
        if abs(ra.get(k, rb.get(k))) > 1e-12:
            return False
    for k in set(ra) & set(rb):
        if abs(ra[k] - rb[k]) > 1e-9:
            return False
    return True


def new_result():
    return {"evaluations": 0, "nontrivial": [], "traces": [], "violations": [], "samples": [],
            "simulated_time": {"messages": 0}, "faults_injected": {"reorder": 0},
            "probes": {"batches_seen": 0, "real_pipeline_runs": 0}, "pools": {}, "inconclusive": {}}


def shards(tier, seed, scale=1.0):
    out = []
    files = corpus_files()
    kc = {"quick": 10, "thorough": 40}[tier]
    nchunks = 8
    for c in range(nchunks):
        out.append({"name": "corpus-%d" % c, "type": "corpus", "files": files[c::nchunks], "k": kc,
                    "seed": sub(seed, ID, "corpus", c), "wall_limit_s": WALL_S[tier]})
    nsh, per, k = {"quick": (24, 110, 7), "thorough": (256, 125, 16)}[tier]
    per = max(1, int(per * scale))
    for s in range(nsh):
        out.append({"name": "gen-%d" % s, "type": "gen", "seed": sub(seed, ID, "gen", s), "programs": per, "k": k,
                    "wall_limit_s": WALL_S[tier]})
    return out


def run_shard(shard):
    res = new_result()
    open_tags = DC.load_open_tags(ID)
    if shard["type"] == "corpus":
        for path in shard["files"]:
            with open(path) as f:
                text = f.read()
            sort_lists = any(w in text for w in LISTY)
            rng = stream(shard["seed"], os.path.basename(path))
            explore(res, text, ["corpus"], rng, shard["k"], "corpus", model=file_model(path), sort_lists=sort_lists,
                    name=os.path.relpath(path, REPO) if path.startswith(REPO) else os.path.relpath(path, DC.VERIF))
    else:
        for i in range(shard["programs"]):
            case = make_case(shard["seed"], i)
            if case is None:
                res["inconclusive"]["discarded_oversize"] = res["inconclusive"].get("discarded_oversize", 0) + 1
                continue
            pool = "frontier" if (set(case["tags"]) & open_tags) else "core"
            rng = stream(shard["seed"], "policy", i)
            explore(res, case["text"], case["tags"], rng, shard["k"], pool, prog=case["prog"], open_tags=open_tags)
    return res


def replay(doc):
    name = doc.get("file")
    model = None
    if doc.get("program_text") is None and name:
        path = os.path.join(REPO, name) if os.path.exists(os.path.join(REPO, name)) else os.path.join(DC.VERIF, name)
        model = file_model(path)
        with open(path) as f:
            text = f.read()
    else:
        text = doc["program_text"]
    spec = {"name": "scripted", "decisions": doc.get("decisions", [])}
    PROPAGATE[0] = bool(doc.get("propagate_evidence", False))
    try:
        sig, sigt, sched, base, o = pair_signature(text, spec, model, doc.get("sort_lists", False))
    finally:
        PROPAGATE[0] = False
    if sigt is None:
        return []
    side = "permuted" if sigt[2] is o else "baseline"
    tags = doc.get("tags", [])
    if doc.get("program_text"):
        tags = gen.tags_of_text(text) or tags
    m = DC.match_dict(sigt, tags, side)
    m["file"] = name
    m["propagate_evidence"] = PROPAGATE[0]
    if sig in ("prob", "instances"):
        m["zero_prob_only"] = zero_prob_only(base, o)
    m["propagate_evidence"] = bool(doc.get("propagate_evidence", False))
    for k in ("vanishes_single_query",):
        if k in doc.get("match_extra", {}):
            m[k] = doc["match_extra"][k]
    return [{"signature": sig, "summary": ("%s: %s" % (sig, sigt[1]))[:300], "match": m, "replay": dict(doc)}]
