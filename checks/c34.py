"""C34 — OrderedSet / UHeap / BitVector behave as their abstract models.

Seeded histories of container operations (several container instances per history, so that the
binary operators meet operands with different histories), checked op by op against reference
models. The only "fault" this surface has is an invalid operation (pop on empty, remove of a
missing element): it must raise and leave every container unchanged.

One run = one history = one integer seed. Replay file = the op list.
"""
import copy
import json

from sim.seeds import sub, stream, digest
from sim.minimize import ddmin

ID = "C34"
WALL_S = {"quick": 200, "thorough": 1500}

META = {
    "rule": "one case = one seeded operation history (8-60 ops) over up to 3 instances of one container kind, "
            "swarm-chosen op mix / universe size / key mode; after every op every instance is compared with its "
            "reference model. non-trivial = at least 3 state-changing ops were executed; distinct = new (kind, op-list) digest",
    "trace_measure": "digest of the sequence of abstract states (model contents after each op)",
    "components": {"real": ["problog.util.OrderedSet", "problog.util.UHeap", "problog.util.BitVector"],
                   "stub": [], "simulated": ["operation history generator", "reference models (list / dict / set)"]},
    "assumptions": [
        "results of OrderedSet binary operators | & - ^ are compared as sets (plus: iterate without duplicates); "
        "iteration order is asserted for add/discard/remove/pop/clear/in-place operators, whose insertion order is defined",
        "UHeap ties between equal keys may pop in any order",
        "BitVector iteration is compared as a duplicate-free collection, not for ascending order",
    ],
}


class Mismatch(Exception):
    pass


def expect(cond, msg):
    if not cond:
        raise Mismatch(msg)


# ------------------------------------------------------------------------------------------------
# OrderedSet


def gen_oset(rng):
    universe = rng.choice([3, 5, 8, 16])
    nset = rng.choice([1, 2, 3])
    n = rng.randint(8, 60)
    weights = {
        "add": rng.choice([1, 3, 6]), "discard": rng.choice([0, 1, 3]), "remove": rng.choice([0, 1]),
        "pop": rng.choice([0, 1, 2]), "popfirst": rng.choice([0, 1]), "clear": rng.choice([0, 0, 1]),
        "new": rng.choice([0, 1]), "or": 1, "and": 1, "sub": 1, "xor": rng.choice([0, 1]), "eq": 1,
        "ior": rng.choice([0, 1, 2]), "iand": rng.choice([0, 1]), "isub": rng.choice([0, 1]),
        "ixor": rng.choice([0, 1]), "le": rng.choice([0, 1]), "disjoint": rng.choice([0, 1]),
    }
    names = [k for k, w in weights.items() for _ in range(w)]
    ops = []
    for _ in range(n):
        k = rng.choice(names)
        i = rng.randrange(nset)
        j = rng.randrange(nset)
        if k in ("add", "discard", "remove"):
            ops.append([k, i, rng.randrange(universe)])
        elif k in ("pop", "popfirst", "clear"):
            ops.append([k, i])
        elif k == "new":
            ops.append([k, i, [rng.randrange(universe) for _ in range(rng.randint(0, 6))]])
        else:
            ops.append([k, i, j, rng.choice(["oset", "list", "oset", "pyset"])])
    return {"kind": "oset", "nset": nset, "universe": universe, "ops": ops}


def run_oset(case, stats=None):
    from problog.util import OrderedSet

    n = case["nset"]
    U = case["universe"]
    impl = [OrderedSet() for _ in range(n)]
    model = [[] for _ in range(n)]  # list without duplicates, insertion order
    changes = 0
    trace = []

    def m_add(m, x):
        if x not in m:
            m.append(x)

    def operand(j, how):
        if how == "oset":
            return impl[j]
        if how == "list":
            return list(model[j]) + list(model[j][:1])  # an iterable with a duplicate
        return set(model[j])

    def check_all(where):
        for a in range(n):
            expect(list(impl[a]) == model[a], "%s: iteration %r != model %r" % (where, list(impl[a]), model[a]))
            expect(len(impl[a]) == len(model[a]), "%s: len" % where)
            expect(list(reversed(impl[a])) == model[a][::-1], "%s: reversed" % where)
            for x in range(U):
                expect((x in impl[a]) == (x in model[a]), "%s: contains(%r)" % (where, x))
            expect(bool(impl[a]) == bool(model[a]), "%s: bool" % where)

    for idx, op in enumerate(case["ops"]):
        k = op[0]
        i = op[1] % n
        where = "op#%d %r" % (idx, op)
        before = [list(m) for m in model]
        if k == "add":
            impl[i].add(op[2])
            m_add(model[i], op[2])
        elif k == "discard":
            impl[i].discard(op[2])
            if op[2] in model[i]:
                model[i].remove(op[2])
        elif k == "remove":
            if op[2] in model[i]:
                impl[i].remove(op[2])
                model[i].remove(op[2])
            else:
                try:
                    impl[i].remove(op[2])
                    expect(False, "%s: remove of a missing element did not raise" % where)
                except KeyError:
                    if stats is not None:
                        stats["invalid_op"] = stats.get("invalid_op", 0) + 1
        elif k in ("pop", "popfirst"):
            last = k == "pop"
            if model[i]:
                got = impl[i].pop(last=last) if not last else impl[i].pop()
                want = model[i].pop(-1 if last else 0)
                expect(got == want, "%s: popped %r, model %r" % (where, got, want))
            else:
                try:
                    impl[i].pop(last=last)
                    expect(False, "%s: pop on empty did not raise" % where)
                except KeyError:
                    if stats is not None:
                        stats["invalid_op"] = stats.get("invalid_op", 0) + 1
        elif k == "clear":
            impl[i].clear()
            model[i] = []
        elif k == "new":
            impl[i] = OrderedSet(op[2])
            model[i] = []
            for x in op[2]:
                m_add(model[i], x)
        else:
            j = op[2] % n
            how = op[3]
            other = operand(j, how)
            mj = list(model[j])
            if k in ("or", "and", "sub", "xor"):
                if how == "list":
                    other = OrderedSet(other)  # binary operators of Set need a Set on the right
                if k == "or":
                    res, want = impl[i] | other, set(model[i]) | set(mj)
                elif k == "and":
                    res, want = impl[i] & other, set(model[i]) & set(mj)
                elif k == "sub":
                    res, want = impl[i] - other, set(model[i]) - set(mj)
                else:
                    res, want = impl[i] ^ other, set(model[i]) ^ set(mj)
                lst = list(res)
                expect(isinstance(res, OrderedSet), "%s: result type %r" % (where, type(res)))
                expect(len(lst) == len(set(lst)), "%s: result iterates with duplicates %r" % (where, lst))
                expect(set(lst) == want, "%s: result %r, model %r" % (where, lst, sorted(want)))
                expect(len(res) == len(want), "%s: result len" % where)
            elif k == "eq":
                if how == "oset":
                    # two OrderedSets: equal iff same elements in same order (what the class documents)
                    got = impl[i] == other
                    if set(model[i]) != set(mj):
                        expect(not got, "%s: unequal sets compare equal" % where)
                    if model[i] == mj:
                        expect(got, "%s: identical ordered sets compare unequal" % where)
                elif how == "pyset":
                    got = impl[i] == other
                    expect(bool(got) == (set(model[i]) == set(mj)), "%s: eq with set %r" % (where, got))
                expect(not (impl[i] == None), "%s: eq None" % where)  # noqa: E711
            elif k == "le":
                if how == "list":
                    other = OrderedSet(other)
                expect((impl[i] <= other) == (set(model[i]) <= set(mj)), "%s: <=" % where)
            elif k == "disjoint":
                expect(impl[i].isdisjoint(other) == (not (set(model[i]) & set(mj))), "%s: isdisjoint" % where)
            elif k == "ior":
                impl[i] |= other
                for x in (mj + mj[:1] if how == "list" else (list(other) if how == "pyset" else mj)):
                    m_add(model[i], x)
            elif k == "iand":
                if how == "list":
                    other = OrderedSet(other)
                if j != i:
                    impl[i] &= other
                    model[i] = [x for x in model[i] if x in mj]
            elif k == "isub":
                if how == "list":
                    other = OrderedSet(other)
                if j == i and how == "oset":
                    impl[i] -= other
                    model[i] = []
                else:
                    impl[i] -= other
                    model[i] = [x for x in model[i] if x not in mj]
            elif k == "ixor":
                if how == "list":
                    other = OrderedSet(other)
                if j == i and how == "oset":
                    impl[i] ^= other
                    model[i] = []
                else:
                    src = list(other) if how == "pyset" else mj
                    impl[i] ^= other
                    for x in src:
                        if x in model[i]:
                            model[i].remove(x)
                        else:
                            model[i].append(x)
        if before != model:
            changes += 1
        check_all(where)
        trace.append(digest(model))
    return changes, digest(trace)


# ------------------------------------------------------------------------------------------------
# UHeap


def gen_heap(rng):
    universe = rng.choice([3, 6, 12, 30])
    keyrange = rng.choice([2, 4, 10, 1000])
    keymode = rng.choice(["func", "func", "func", "none", "neg"])
    n = rng.randint(8, 70)
    w = {"push": rng.choice([2, 4, 8]), "pop": rng.choice([1, 2, 3]), "popk": rng.choice([0, 1]),
         "peek": rng.choice([0, 1]), "len": 1}
    names = [k for k, c in w.items() for _ in range(c)]
    ops = []
    for _ in range(n):
        k = rng.choice(names)
        if k == "push":
            ops.append(["push", rng.randrange(universe), rng.randrange(keyrange)])
        else:
            ops.append([k])
    if rng.random() < 0.3:
        ops += [["pop"]] * rng.randint(1, universe + 2)  # drain (also pops on empty)
    return {"kind": "heap", "keymode": keymode, "ops": ops}


def run_heap(case, stats=None):
    from problog.util import UHeap

    keymode = case["keymode"]
    K = {}
    if keymode == "func":
        heap = UHeap(key=lambda it: K[it])
    elif keymode == "neg":
        heap = UHeap(key=lambda it: (-K[it], 0))
    else:
        heap = UHeap()
    model = {}  # item -> key as the heap must see it
    changes = 0
    trace = []

    def keyof(item, k):
        if keymode == "func":
            return k
        if keymode == "neg":
            return (-k, 0)
        return item

    def drain_check(where):
        h2 = copy.copy(heap)
        h2._heap = list(heap._heap)
        h2._index = dict(heap._index)
        out = []
        while len(h2):
            out.append(h2.pop_with_key())
        keys = [k for k, _ in out]
        expect(keys == sorted(keys), "%s: drain not in non-decreasing key order: %r" % (where, out))
        expect(sorted((k, it) for k, it in out) == sorted((k, it) for it, k in model.items()),
               "%s: drained content %r != model %r" % (where, out, model))

    for idx, op in enumerate(case["ops"]):
        where = "op#%d %r" % (idx, op)
        k = op[0]
        before = dict(model)
        if k == "push":
            item, key = op[1], op[2]
            if keymode != "none":
                K[item] = key
            is_new = heap.push(item)
            expect(bool(is_new) == (item not in model), "%s: push returned %r, item %s in model" % (
                where, is_new, "was" if item in model else "was not"))
            model[item] = keyof(item, key)
        elif k in ("pop", "popk", "peek"):
            if not model:
                try:
                    if k == "pop":
                        heap.pop()
                    elif k == "popk":
                        heap.pop_with_key()
                    else:
                        heap.peek()
                    expect(False, "%s: on empty heap did not raise" % where)
                except (AssertionError, IndexError, KeyError):
                    if stats is not None:
                        stats["invalid_op"] = stats.get("invalid_op", 0) + 1
            else:
                mn = min(model.values())
                if k == "pop":
                    it = heap.pop()
                    expect(it in model and model[it] == mn, "%s: popped %r (key %r), minimal key %r, model %r" % (
                        where, it, model.get(it), mn, model))
                    del model[it]
                elif k == "popk":
                    kk, it = heap.pop_with_key()
                    expect(it in model and model[it] == mn and kk == mn, "%s: popped %r, min %r" % (where, (kk, it), mn))
                    del model[it]
                else:
                    it = heap.peek()
                    expect(it in model and model[it] == mn, "%s: peek %r, min %r" % (where, it, mn))
        expect(len(heap) == len(model), "%s: len %d != %d" % (where, len(heap), len(model)))
        expect(bool(heap) == bool(model), "%s: bool" % where)
        drain_check(where)
        if before != model:
            changes += 1
        trace.append(digest(sorted(model.items())))
    return changes, digest(trace)


# ------------------------------------------------------------------------------------------------
# BitVector


def gen_bits(rng):
    universe = rng.choice([8, 40, 70, 200, 1100])
    nvec = rng.choice([1, 2, 3])
    n = rng.randint(8, 60)
    w = {"add": rng.choice([2, 4, 8]), "and": 1, "or": 1, "iand": rng.choice([0, 1, 2]), "ior": rng.choice([0, 1, 2]),
         "new": rng.choice([0, 1]), "probe": 1}
    names = [k for k, c in w.items() for _ in range(c)]
    ops = []
    for _ in range(n):
        k = rng.choice(names)
        i, j = rng.randrange(nvec), rng.randrange(nvec)
        if k == "add":
            # bias to block boundaries
            x = rng.choice([rng.randrange(universe), rng.randrange(universe), 31, 32, 63, 64, 0])
            ops.append(["add", i, x % universe])
        elif k == "new":
            ops.append(["new", i])
        elif k == "probe":
            ops.append(["probe", i, rng.randrange(universe + 70)])
        else:
            ops.append([k, i, j, rng.randrange(nvec)])
    return {"kind": "bits", "nvec": nvec, "universe": universe, "ops": ops}


def run_bits(case, stats=None):
    from problog.util import BitVector

    n = case["nvec"]
    U = case["universe"]
    impl = [BitVector() for _ in range(n)]
    model = [set() for _ in range(n)]
    changes = 0
    trace = []

    def check_vec(v, m, where):
        lst = list(v)
        expect(len(lst) == len(set(lst)), "%s: iterates with duplicates" % where)
        expect(set(lst) == m, "%s: iteration %r != model %r" % (where, lst, sorted(m)))
        expect(len(v) == len(m), "%s: len %d != %d" % (where, len(v), len(m)))
        expect(bool(v) == bool(m), "%s: bool" % where)
        for x in set(m) | {0, 31, 32, 33, U - 1, U + 40}:
            expect(bool(x in v) == (x in m), "%s: contains(%d)" % (where, x))

    for idx, op in enumerate(case["ops"]):
        where = "op#%d %r" % (idx, op)
        k = op[0]
        i = op[1] % n
        before = [set(m) for m in model]
        if k == "add":
            impl[i].add(op[2])
            model[i].add(op[2])
        elif k == "new":
            impl[i] = BitVector()
            model[i] = set()
        elif k == "probe":
            expect(bool(op[2] in impl[i]) == (op[2] in model[i]), "%s: contains" % where)
        else:
            j = op[2] % n
            if k in ("and", "or"):
                res = (impl[i] & impl[j]) if k == "and" else (impl[i] | impl[j])
                want = (model[i] & model[j]) if k == "and" else (model[i] | model[j])
                check_vec(res, want, where + " result")
                dst = op[3] % n
                # operands must be unchanged; then store the result so later ops meet it
                check_vec(impl[i], model[i], where + " left operand")
                check_vec(impl[j], model[j], where + " right operand")
                impl[dst] = res
                model[dst] = set(want)
            elif k == "iand":
                if i != j:
                    mj = set(model[j])
                    impl[i] &= impl[j]
                    model[i] = model[i] & mj
            elif k == "ior":
                if i != j:
                    impl[i] |= impl[j]
                    model[i] = model[i] | model[j]
        for a in range(n):
            check_vec(impl[a], model[a], where + " vec%d" % a)
        if before != model:
            changes += 1
        trace.append(digest([sorted(m) for m in model]))
    return changes, digest(trace)


GEN = {"oset": gen_oset, "heap": gen_heap, "bits": gen_bits}
RUN = {"oset": run_oset, "heap": run_heap, "bits": run_bits}


def run_case(case, stats=None):
    """Returns (violation-or-None, changes, trace)."""
    try:
        changes, trace = RUN[case["kind"]](case, stats)
        return None, changes, trace
    except Mismatch as e:
        return ("mismatch", str(e)), 0, None
    except Exception as e:  # the container itself crashed on a valid history
        return ("crash:" + type(e).__name__, "%s: %s" % (type(e).__name__, e)), 0, None


def classify(kind, verdict):
    """Violation signature: container kind + verdict class + the operation that exposed it."""
    what = verdict[1]
    opname = "?"
    if "op#" in what:
        try:
            opname = what.split("[", 1)[1].split(",", 1)[0].split("]")[0].strip("'\"")
        except IndexError:
            pass
    detail = what.split(": ", 1)[1] if ": " in what else what
    detail = detail.split(" ")[0]
    return "%s:%s:%s:%s" % (kind, verdict[0], opname, detail)


def minimise(case, sig):
    def fails(ops):
        c = dict(case)
        c["ops"] = ops
        v, _, _ = run_case(c)
        return v is not None and classify(case["kind"], v) == sig

    ops = ddmin(case["ops"], fails, max_tests=600)
    c = dict(case)
    c["ops"] = ops
    return c


def shards(tier, seed, scale=1.0):
    per = {"quick": 4000, "thorough": 60000}[tier]
    per = max(1, int(per * scale))
    out = []
    for kind in ("oset", "heap", "bits"):
        for s in range(5):
            out.append({"name": "%s-%d" % (kind, s), "kind": kind, "seed": sub(seed, ID, kind, s), "runs": per,
                        "wall_limit_s": WALL_S[tier]})
    return out


def run_shard(shard):
    kind = shard["kind"]
    res = {"evaluations": 0, "nontrivial": [], "traces": [], "violations": [], "samples": [],
           "simulated_time": {"ops": 0}, "faults_injected": {"invalid_op": 0},
           "probes": {}, "pools": {kind: 0}}
    stats = {}
    seen_sig = set()
    for r in range(shard["runs"]):
        rng = stream(shard["seed"], r)
        case = GEN[kind](rng)
        v, changes, trace = run_case(case, stats)
        res["evaluations"] += 1
        res["pools"][kind] += 1
        res["simulated_time"]["ops"] += len(case["ops"])
        if v is None:
            if changes >= 3:
                res["nontrivial"].append(digest(case))
            if trace:
                res["traces"].append(trace)
            if r < 1:
                res["samples"].append({"kind": kind, "ops": case["ops"][:25], "verdict": "ok",
                                       "state_changing_ops": changes})
        else:
            sig = classify(kind, v)
            if sig in seen_sig:
                continue
            seen_sig.add(sig)
            small = minimise(case, sig)
            v2, _, _ = run_case(small)
            res["violations"].append({
                "signature": sig, "summary": v2[1] if v2 else v[1],
                "match": {"signature": sig, "kind": kind},
                "replay": {"case": small, "case_digest": digest(small), "found_by": {"shard": shard["name"], "run": r}},
            })
    res["faults_injected"]["invalid_op"] = stats.get("invalid_op", 0)
    # keep the merged lists bounded: digests are 16 hex chars
    return res


def replay(doc):
    case = doc["case"]
    v, _, _ = run_case(case)
    if v is None:
        return []
    sig = classify(case["kind"], v)
    return [{"signature": sig, "summary": v[1], "match": {"signature": sig, "kind": case["kind"]},
             "replay": {"case": case, "case_digest": digest(case)}}]
