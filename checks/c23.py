"""C23 — k-best anytime bounds are sound, and tight on completion; explanations sum to the exact probability.

The interval answer of the k-best evaluator only exists under interruption, so the clock is the
simulator's: a virtual alarm (count of source lines executed inside problog/) raises
KeyboardInterrupt("sim-timeout") at a seeded simulated time inside KBestFormula.evaluate — the
deterministic stand-in for util.start_timer's SIGALRM. Real code: KBestFormula / KBestEvaluator /
Border, CNF partial encoding, the maxsatz subprocess. Oracle: exact probability from the reference
possible-world enumerator (independent of ProbLog).
"""
import re

from problog.kbest import KBestFormula
from problog.program import PrologString
from problog.errors import ProbLogError

from sim import gen
from sim import pipeline as PL
from sim.alarm import Alarm
from sim.cases import make_case
from sim.seeds import sub, stream, digest

ID = "C23"
WALL_S = {"quick": 400, "thorough": 3300}

META = {
    "rule": "one case = (evidence-free generated program, alarm time T). T is drawn uniformly from 1..N (N = simulated length of the uninterrupted run) or right after "
            "an interesting event (entry of Border.update, MaxSATSolver.evaluate, CNF.from_partial, add_constraint). Every value the evaluator returns is judged against "
            "the exact reference probability: float v -> |v-p| <= 1e-6; pair (l,u) -> l <= p <= u within 1e-6 and 0 <= l <= u <= 1. Plus one fault-free run and one "
            "explain run per program. non-trivial = the alarm fired inside the evaluation and at least one interval (not a point) was returned; distinct = new (program digest, T)",
    "trace_measure": "digest of (alarm time, firing location, returned bounds)",
    "components": {"real": ["KBestFormula", "KBestEvaluator.evaluate", "Border.update", "CNF / clarks_completion / from_partial", "maxsatz (subprocess)",
                            "engine + cycle breaking"],
                   "stub": [], "simulated": ["clock: virtual alarm on line events (sys.settrace)", "reference enumerator"]},
    "assumptions": [
        "line granularity: interrupts between two bytecodes of one source line are not explored",
        "an interrupt that lands outside KBestEvaluator.evaluate's try block escapes and returns nothing: nothing is judged (counted as escaped)",
    ],
}

WATCH = ("Border.update", "MaxSATSolver.evaluate", "CNF.from_partial", "BaseFormula.add_constraint", "Border.__init__",
         "MaxSATSolver.call_process", "subprocess_check_output")
TOL = 1e-6


class Bad(Exception):
    def __init__(self, sig, why):
        Exception.__init__(self, why)
        self.sig, self.why = sig, why


def exact_probs(case):
    sol = case["sol"]
    return {k: float(v) for k, v in sol["probs"].items()}


def run_kbest(text, at=None, explain=False, watch=(), convergence=None):
    """Returns dict(kind, results {name: float | [l,u]}, explanation, fired, where, count, marks)."""
    PL.CLOCK.reset(400000)
    out = {"fired": False, "where": None}
    try:
        try:
            cnf = KBestFormula.create_from(PrologString(text), label_all=True)
            expl = [] if explain else None
            alarm = Alarm(at=at, watch=watch) if (at is not None or watch) else None
            try:
                kw = {} if convergence is None else {"convergence": convergence}
                if alarm is not None:
                    with alarm:
                        res = cnf.evaluate(explain=expl, **kw) if explain else cnf.evaluate(**kw)
                else:
                    res = cnf.evaluate(explain=expl, **kw) if explain else cnf.evaluate(**kw)
            finally:
                if alarm is not None:
                    out.update(fired=alarm.fired, where=alarm.where, count=alarm.count, marks=alarm.marks)
            out["kind"] = "ok"
            out["results"] = {str(k).replace(" ", ""): (list(v) if isinstance(v, tuple) else float(v)) for k, v in res.items()}
            out["explanation"] = expl
        except KeyboardInterrupt:
            out["kind"] = "escaped"
        except (PL.StepBudget, PL.CycleBreakBudget):
            out["kind"] = "budget"
        except ProbLogError as e:
            out.update(PL.outcome_of_exception(e))
        except Exception as e:
            out.update(PL.outcome_of_exception(e))
    finally:
        PL.CLOCK.budget = None
        PL.CLOCK.cb_budget = None
    return out


def judge(results, exact, where):
    """Raises Bad if a returned value is not sound / not tight."""
    nontrivial = False
    for name, v in results.items():
        p = exact.get(name, 0.0)
        if isinstance(v, list):
            l, u = v
            nontrivial = nontrivial or (u - l > 1e-9)
            if not (-1e-9 <= l <= 1 + 1e-9 and -1e-9 <= u <= 1 + 1e-9):
                raise Bad("bounds-range", "%s: %s returned bounds [%r, %r] outside [0,1]" % (where, name, l, u))
            if l > u + 1e-9:
                raise Bad("bounds-order", "%s: %s returned lower %r > upper %r" % (where, name, l, u))
            if l > p + TOL:
                raise Bad("lower-unsound", "%s: %s lower bound %r exceeds the exact probability %r" % (where, name, l, p))
            if u < p - TOL:
                raise Bad("upper-unsound", "%s: %s upper bound %r is below the exact probability %r" % (where, name, u, p))
        else:
            if abs(v - p) > TOL:
                raise Bad("value-wrong", "%s: %s returned the single value %r, exact probability %r" % (where, name, v, p))
    return nontrivial


_PROOF = re.compile(r"^(.*?) :- (.*)\.\s+% P=([0-9.eE+-]+)\s*$")


def judge_explanation(expl, exact, results):
    """The explanation is a sequence of sections, one per evaluated query: proof lines
    'name :- body.  % P=x' closed by an empty line, or a single 'name :- fail.' / 'name :- true.'."""
    sections = []  # [name, sum, nproofs]
    cur = None
    for line in expl:
        line = line.rstrip()
        if not line:
            cur = None
            continue
        m = _PROOF.match(line)
        if m:
            name = m.group(1).replace(" ", "")
            if cur is None or cur[0] != name:
                cur = [name, 0.0, 0]
                sections.append(cur)
            cur[1] += float(m.group(3))
            cur[2] += 1
        elif line.endswith(":- fail."):
            name = line[: -len(" :- fail.")].replace(" ", "")
            if cur is None or cur[0] != name:
                sections.append([name, 0.0, 0])
        elif line.endswith(":- true."):
            sections.append([line[: -len(" :- true.")].replace(" ", ""), 1.0, 0])
            cur = None
    explained = set()
    for name, s, nproofs in sections:
        explained.add(name)
        p = exact.get(name, 0.0)
        if abs(s - p) > TOL + 1e-8 * max(1, nproofs):
            raise Bad("explain-sum", "explain: the proofs listed for %s sum to %r, exact probability %r" % (name, s, p))
    for name in results:
        if name not in explained:
            raise Bad("explain-missing", "explain: query %s has no proofs, fail or true line in the explanation" % name)


def explore_program(case, rng, ntimes, res):
    text = case["text"]
    exact = exact_probs(case)
    dig = case["digest"]
    # 1. fault-free run (also calibrates the horizon and the interesting events)
    cal = run_kbest(text, at=None, watch=WATCH)
    res["evaluations"] += 1
    if cal["kind"] != "ok":
        if cal["kind"] == "budget":
            res["inconclusive"]["budget"] = res["inconclusive"].get("budget", 0) + 1
            return
        if cal["kind"] == "err" and cal.get("cls") == "NegativeCycle" and "nested_cycle_under_negation" in case["tags"]:
            res["inconclusive"]["F3_spurious_negative_cycle"] = res["inconclusive"].get("F3_spurious_negative_cycle", 0) + 1
            return
        raise Bad("kbest-%s:%s" % (cal["kind"], cal.get("cls")), "fault-free k-best run failed: %s %s %s" % (cal["kind"], cal.get("cls"), cal.get("msg")))
    judge(cal["results"], exact, "fault-free")
    for name, v in cal["results"].items():
        if isinstance(v, list) and v[1] - v[0] > 1e-8:
            raise Bad("not-tight", "fault-free: %s finished with the interval %r (width above the convergence threshold)" % (name, v))
    res["probes"]["fault_free_ok"] += 1
    # 1b. caller-supplied convergence thresholds: an interval may be returned early, but it must contain p, and a single value must be exact
    for conv in ((0.05, 0.3) if int(dig[:2], 16) % 2 == 0 else ()):
        oc = run_kbest(text, convergence=conv)
        res["evaluations"] += 1
        if oc["kind"] == "ok":
            try:
                judge(oc["results"], exact, "fault-free convergence=%s" % conv)
            except Bad as b:
                b.conv = conv
                raise
            res["probes"]["convergence_runs"] = res["probes"].get("convergence_runs", 0) + 1
    # 2. explanation
    ex = run_kbest(text, explain=True)
    res["evaluations"] += 1
    if ex["kind"] == "ok":
        judge_explanation(ex["explanation"], exact, ex["results"])
        res["probes"]["explanations_ok"] += 1
    elif ex["kind"] not in ("budget",):
        raise Bad("explain-%s:%s" % (ex["kind"], ex.get("cls")), "explain run failed: %s %s" % (ex.get("cls"), ex.get("msg")))
    # 3. interrupted runs
    N = max(cal.get("count", 1), 1)
    marks = [c for _q, c in cal.get("marks", [])]
    times = []
    for j in range(ntimes):
        if marks and j % 3 != 0:
            times.append(min(N, rng.choice(marks) + rng.randint(1, 12)))
        else:
            times.append(rng.randint(1, N))
    for T in times:
        o = run_kbest(text, at=T)
        res["evaluations"] += 1
        res["simulated_time"]["line_events"] += o.get("count", 0) or 0
        if o["fired"]:
            res["faults_injected"]["interrupt"] += 1
        if o["kind"] == "escaped":
            res["probes"]["interrupt_escaped_outside_try"] += 1
            continue
        if o["kind"] == "budget":
            continue
        if o["kind"] != "ok":
            raise Bad("interrupted-%s:%s" % (o["kind"], o.get("cls")), "interrupted at T=%d (%s): %s %s" % (T, o.get("where"), o.get("cls"), o.get("msg")))
        res["probes"]["interrupt_inside_try"] += 1 if o["fired"] else 0
        try:
            nontrivial = judge(o["results"], exact, "alarm T=%d at %s" % (T, o.get("where")))
        except Bad as b:
            b.T = T
            raise
        if o["fired"] and nontrivial:
            res["nontrivial"].append(digest((dig, T)))
            res["probes"]["intervals_returned"] += 1
        res["traces"].append(digest((T, o.get("where"), sorted(o["results"].items()))))
        if not res["samples"] and o["fired"] and nontrivial:
            res["samples"].append({"program": text, "alarm_T": T, "horizon": N, "fired_at": o.get("where"), "returned": o["results"],
                                   "exact": exact})


def new_result():
    return {"evaluations": 0, "nontrivial": [], "traces": [], "violations": [], "samples": [],
            "simulated_time": {"line_events": 0}, "faults_injected": {"interrupt": 0},
            "probes": {"fault_free_ok": 0, "explanations_ok": 0, "interrupt_escaped_outside_try": 0, "interrupt_inside_try": 0,
                       "intervals_returned": 0}, "pools": {}, "inconclusive": {}}


def case_for(seed, i):
    case = make_case(seed, i, need_solution=True, evidence_free=True, max_worlds=256,
                     feat_override={"nonground_query": False} if i % 3 else None)
    if case is None or not case["prog"]["queries"] or i % 2:
        return case
    # every other program gets an alias of one of its ground queries, queried as well: two queries on one ground node
    from sim import ref
    prog = case["prog"]
    ground_q = [q for q in prog["queries"] if not any(gen.is_var(a) for a in q[1])]
    if not ground_q:
        return case
    q = ground_q[0]
    prog2 = dict(prog)
    alias = ["zzalias", list(q[1])]
    prog2["clauses"] = prog["clauses"] + [{"heads": [[None, alias]], "body": [[True, q]]}]
    prog2["queries"] = [q, alias] + [x for x in prog["queries"] if x != q]
    try:
        R = ref.Ref(prog2, max_worlds=256)
        sol = R.solve()
    except ref.TooBig:
        return case
    return {"prog": prog2, "text": gen.program_text(prog2), "tags": case["tags"], "ref": R, "sol": sol, "digest": gen.program_digest(prog2)}


def shards(tier, seed, scale=1.0):
    nsh, per, nt = {"quick": (16, 16, 5), "thorough": (128, 20, 12)}[tier]
    per = max(1, int(per * scale))
    return [{"name": "kb-%d" % s, "seed": sub(seed, ID, s), "programs": per, "ntimes": nt, "wall_limit_s": WALL_S[tier]} for s in range(nsh)]


def minimise(case, T, sig):
    from sim import diffcheck as DC

    def sig_of(text):
        try:
            prog = gen.parse_text(text)
            from sim import ref
            sol = ref.Ref(prog, max_worlds=1024).solve()
            exact = {k: float(v) for k, v in sol["probs"].items()}
        except Exception:
            return None
        try:
            if T is None:
                o = run_kbest(text)
                if o["kind"] != "ok":
                    return "kbest-%s:%s" % (o["kind"], o.get("cls"))
                judge(o["results"], exact, "x")
                ex = run_kbest(text, explain=True)
                if ex["kind"] == "ok":
                    judge_explanation(ex["explanation"], exact, ex["results"])
            else:
                o = run_kbest(text, at=T)
                if o["kind"] == "ok":
                    judge(o["results"], exact, "x")
        except Bad as b:
            return b.sig
        return None

    small = DC.minimise_program(case["prog"], sig_of, sig, max_s=60, max_tests=60)
    return small


def run_shard(shard):
    res = new_result()
    seen = set()
    for i in range(shard["programs"]):
        case = case_for(shard["seed"], i)
        if case is None or not case["prog"]["queries"]:
            res["inconclusive"]["discarded"] = res["inconclusive"].get("discarded", 0) + 1
            continue
        rng = stream(shard["seed"], "alarm", i)
        res["pools"]["programs"] = res["pools"].get("programs", 0) + 1
        try:
            explore_program(case, rng, shard["ntimes"], res)
        except Bad as b:
            if b.sig in seen:
                continue
            seen.add(b.sig)
            T = getattr(b, "T", None)
            conv = getattr(b, "conv", None)
            text = case["text"]
            if T is None and conv is None:
                try:
                    small = minimise(case, None, b.sig)
                    text = gen.program_text(small)
                except Exception:
                    pass
            res["violations"].append({"signature": b.sig, "summary": b.why[:300], "match": {"signature": b.sig, "tags": case["tags"]},
                                      "replay": {"program_text": text, "alarm_T": T, "convergence": conv, "case_digest": digest((text, T, conv))}})
    return res


def replay(doc):
    text = doc["program_text"]
    prog = gen.parse_text(text)
    from sim import ref
    sol = ref.Ref(prog, max_worlds=4096).solve()
    exact = {k: float(v) for k, v in sol["probs"].items()}
    T = doc.get("alarm_T")
    try:
        if doc.get("convergence") is not None:
            oc = run_kbest(text, convergence=doc["convergence"])
            if oc["kind"] == "ok":
                judge(oc["results"], exact, "fault-free convergence=%s" % doc["convergence"])
        elif T is None:
            o = run_kbest(text)
            if o["kind"] != "ok":
                raise Bad("kbest-%s:%s" % (o["kind"], o.get("cls")), "fault-free k-best run failed: %s" % o.get("msg"))
            judge(o["results"], exact, "fault-free")
            for name, v in o["results"].items():
                if isinstance(v, list) and v[1] - v[0] > 1e-8:
                    raise Bad("not-tight", "fault-free: %s finished with the interval %r" % (name, v))
            ex = run_kbest(text, explain=True)
            if ex["kind"] == "ok":
                judge_explanation(ex["explanation"], exact, ex["results"])
        else:
            o = run_kbest(text, at=T)
            if o["kind"] == "ok":
                judge(o["results"], exact, "alarm T=%d at %s" % (T, o.get("where")))
            elif o["kind"] not in ("escaped", "budget"):
                raise Bad("interrupted-%s:%s" % (o["kind"], o.get("cls")), "interrupted at T=%d: %s" % (T, o.get("msg")))
    except Bad as b:
        return [{"signature": b.sig, "summary": b.why[:300], "match": {"signature": b.sig}, "replay": dict(doc)}]
    return []
